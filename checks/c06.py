"""C06 Checked conversions and integer helpers (DESIGN.md §6 C06): the comparison-shaped part.

 TC     cast::truncation_check<D,S> for all 64 ordered pairs of the 8/16/32/64-bit signed and unsigned
        types: evaluated per integer REGION of the source (finite abstract domain R: the source range cut
        at every bound of every registry type): some(x) with the value preserved exactly on the regions
        inside [min D, max D], nothing elsewhere -- through the real call chain (detail overloads,
        optional::bind, cast::size / to_signed / to_unsigned)
 FI     enum_::from_int<E,V>: accepts exactly the values below enum size; comparison done without a
        lossy conversion
 CLAMP  math::clamp over the 13 weak orders of (value, min, max): nothing iff min > max, else
        max(min(v, hi), lo)
 SIGN   cast::to_unsigned / to_signed inside the C06 functions are applied only to operands whose sign /
        magnitude is established by a dominating comparison (or come from unsigned->signed widening)
 G      zero-divisor and shift guards in the C06 files (engine G)
 MIRROR is_power_of_2 and bit::test are the specification expressions
 W      282 type-level witnesses (overload partition of truncation_check, accepted / rejected types)
Declined: exact quotient/rounding of ceil_div*, next_power_of_2 / log2 results, interval_distance, diff.
"""
import os

import re

from engine import facts as F
from engine import guards as G
from engine import load
from engine import orders as O
from engine import plumbing as P
from engine import regions as RG
from engine import sx
from engine import terms as T
from engine import witness as W

LEVEL = "proof"

TYPES = ["signed char", "unsigned char", "short", "unsigned short", "int", "unsigned int", "long", "unsigned long"]
FILES = ["cast/truncation_check.hpp", "cast/detail/truncation_check.hpp", "cast/size.hpp", "cast/to_signed.hpp", "cast/to_unsigned.hpp",
         "enum/from_int.hpp", "math/ceil_div.hpp", "math/ceil_div_signed.hpp", "math/div.hpp", "math/mod.hpp", "math/detail/mod.hpp",
         "math/clamp.hpp", "math/diff.hpp", "math/detail/diff.hpp", "math/is_power_of_2.hpp", "math/next_power_of_2.hpp", "math/log2.hpp",
         "math/power_of_2.hpp", "math/interval_distance.hpp", "bit/shifted_mask.hpp", "bit/test.hpp"]
INLINE = ("fcppt::optional::", "fcppt::cond", "fcppt::cast::", "fcppt::const_", "fcppt::detail::const_", "fcppt::literal")


def norm_int(t):
    return (t or "").replace("const ", "").strip()


def rule_tc(rep, db):
    holder = {}

    def cast_hook(it, ty, v, unit, n):
        return holder["dom"].convert(ty, v)

    cfg = sx.Config(inline_prefixes=INLINE, hooks={"cast": cast_hook})
    fns = {}
    for fn in db.fns("fcppt::cast::truncation_check"):
        ta = [norm_int(x) for x in (fn.get("targs") or [])]
        if len(ta) >= 2 and ta[0] in TYPES and ta[1] in TYPES:
            fns[(ta[0], ta[1])] = fn
    missing = [(d, s) for d in TYPES for s in TYPES if (d, s) not in fns]
    if missing:
        rep.broken("C06: truncation_check not instantiated for %d of 64 pairs, e.g. %s" % (len(missing), missing[:3]))
    nreg = 0
    for (d, s), fn in sorted(fns.items()):
        dlo, dhi, _ = RG.type_range(d)
        key = "truncation_check<%s>(%s)" % (d, s)
        bad = None
        regs = RG.regions_of(s)
        for reg in regs:
            nreg += 1
            dom = RG.RegionDomain(reg, fn["params"][0]["name"])
            holder["dom"] = dom
            it = sx.Interp(db, cfg, oracle=dom.oracle)
            try:
                out, path = it.run_function(fn)
            except sx.Unsupported as e:
                bad = "region [%d, %d]: %s" % (reg[0], reg[1], e)
                break
            v = out[1] if out[0] == "return" else None
            inside = dlo <= reg[0] and reg[1] <= dhi
            if not (isinstance(v, tuple) and v[0] == "new" and v[1] == sx.OPT):
                bad = "region [%d, %d]: result %s is not a constructed optional" % (reg[0], reg[1], sx.show(v))
                break
            if inside:
                val = dom.norm(v[3][0]) if v[2] == "some" else None
                if v[2] != "some":
                    bad = "source values in [%d, %d] are representable in %s but nothing is returned" % (reg[0], reg[1], d)
                    break
                if val != ("ival", 0):
                    what = "a wrapped value (x %+d)" % val[1] if isinstance(val, tuple) and val[0] == "ival" else "a value unrelated to x"
                    bad = "source values in [%d, %d] are representable in %s but the result holds %s" % (reg[0], reg[1], d, what)
                    break
            else:
                if v[2] != "none":
                    bad = "source values in [%d, %d] are not representable in %s but a value is returned" % (reg[0], reg[1], d)
                    break
        if bad:
            rep.fail("TC", key, F.primary_site(fn), F.describe(fn), why=bad)
        else:
            rep.ok("TC", key, F.primary_site(fn), F.describe(fn), how="all-regions", detail={"regions": len(regs)})
    rep.extra["tc_regions_evaluated"] = nreg


def rule_from_int(rep, db):
    holder = {}

    def cast_hook(it, ty, v, unit, n):
        return holder["dom"].convert(ty, v)
    cfg = sx.Config(inline_prefixes=INLINE, hooks={"cast": cast_hook}, pure=("fcppt::cast::int_to_enum",))
    seen = set()
    for fn in db.fns("fcppt::enum_::from_int"):
        u = fn["_unit"]
        ta = fn.get("targs") or []
        vt = norm_int(ta[1]) if len(ta) > 1 else ""
        if vt not in TYPES or (ta[0], vt) in seen:
            continue
        seen.add((ta[0], vt))
        # enum size: constant folded in the comparison
        # the enum's size: the constant `enum_::size<Enum>::value` the function refers to (wherever it is compared or named)
        size = None
        sizes = {int(n["c"]) for n in F.walk(fn.get("body")) if n.get("k") == "ref" and n.get("dk") == "global" and "c" in n
                 and str(n.get("qn", "")).startswith("std::integral_constant<") and str(n.get("qn", "")).endswith("::value")}
        if len(sizes) == 1:
            size = sizes.pop()
        else:
            for n in F.walk(fn.get("body")):
                if n.get("k") == "binop" and n.get("op") == "<":
                    r = T.unwrap(u, n.get("r"))
                    if r is not None and "c" in r:
                        size = int(r["c"])
        key = "from_int<%s>(%s)" % (ta[0].split("::")[-1], vt)
        if size is None:
            rep.fail("FI", key, F.primary_site(fn), F.describe(fn), why="no comparison of the value against the enum's size found")
            continue
        bad = None
        regs = RG.regions_of(vt, extra_cuts=(size,))
        for reg in regs:
            dom = RG.RegionDomain(reg, fn["params"][0]["name"])
            holder["dom"] = dom
            it = sx.Interp(db, cfg, oracle=dom.oracle)
            try:
                out, path = it.run_function(fn)
            except sx.Unsupported as e:
                bad = "region [%d, %d]: %s" % (reg[0], reg[1], e)
                break
            v = out[1]
            below = reg[1] < size
            if not (isinstance(v, tuple) and v[0] == "new" and v[1] == sx.OPT):
                bad = "result is not a constructed optional: %s" % sx.show(v)
                break
            if below and v[2] != "some":
                bad = "values in [%d, %d] are below the enum size %d but nothing is returned" % (reg[0], reg[1], size)
                break
            if not below and v[2] != "none":
                bad = "values in [%d, %d] are not below the enum size %d but an enumerator is returned" % (reg[0], reg[1], size)
                break
            if below:
                arg = v[3][0]
                if not (isinstance(arg, tuple) and arg[0] == "app" and dom.norm(arg[2][0]) == ("ival", 0)):
                    bad = "the enumerator is not converted from the value itself (%s)" % sx.show(arg)
                    break
        if bad:
            rep.fail("FI", key, F.primary_site(fn), F.describe(fn), why=bad)
        else:
            rep.ok("FI", key, F.primary_site(fn), F.describe(fn), how="all-regions", detail={"regions": len(regs), "enum_size": size})


def rule_clamp(rep, db):
    cfg = sx.Config(inline_prefixes=("fcppt::optional::", "fcppt::cond"))
    seen = set()
    names = ["r_a0", "r_a1", "r_a2"]   # clamp(value, min, max): parameters by position
    for fn in db.fns("fcppt::math::clamp"):
        ta = tuple(fn.get("targs") or [])
        if ta in seen:
            continue
        seen.add(ta)
        bad = None
        wos = O.weak_orders(3)
        for ranks in wos:
            rank_of = O.rank_by_show(names, ranks)
            it = sx.Interp(db, cfg, oracle=O.make_oracle(rank_of))
            try:
                out, _ = it.run_function(fn)
            except sx.Unsupported as e:
                bad = str(e)
                break
            v = out[1]
            rv, rlo, rhi = ranks
            if not (isinstance(v, tuple) and v[0] == "new" and v[1] == sx.OPT):
                bad = "result is not a constructed optional"
                break
            if rlo > rhi:
                if v[2] != "none":
                    bad = "order %s: min > max but a value is returned" % (dict(zip(names, ranks)),)
                    break
            else:
                want = max(min(rv, rhi), rlo)
                got = rank_of(v[3][0]) if v[2] == "some" else None
                if got != want:
                    bad = "order %s: result %s, specification max(min(v, max), min)" % (dict(zip(names, ranks)), sx.show(v))
                    break
        key = "clamp<%s>" % ",".join(ta)
        if bad:
            rep.fail("CLAMP", key, F.primary_site(fn), F.describe(fn), why=bad)
        else:
            rep.ok("CLAMP", key, F.primary_site(fn), F.describe(fn), how="13-weak-orders")


def rule_sign(rep, db, files):
    """to_unsigned(v) requires v >= 0 ; to_signed(v) is applied to values known to fit"""
    def on_site(cx, n, facts, cur):
        if n.get("k") != "call":
            return
        qn = T.callee_qn(cx.unit, n)
        if qn not in ("fcppt::cast::to_unsigned",):
            return
        top = F.top_function(cx.fn)
        f = cx.unit.file_of(top["primary"])
        if f not in files:
            return
        a = n["args"][0]
        R = T.norm(cx.unit, a)
        an = T.unwrap(cx.unit, a)
        ok = False
        how = ""
        if an is not None and "c" in an and int(an["c"]) >= 0:
            ok, how = True, "non-negative constant"
        zero_ok = False
        for (t, pol) in (facts if facts != G.EXIT else ()):
            if isinstance(t, tuple) and t[0] == "b" and len(t) == 4:
                o, l, r = t[1], t[2], t[3]
                if not pol:
                    o = {"<": ">=", ">=": "<", ">": "<=", "<=": ">", "==": "!=", "!=": "=="}.get(o)
                if l == R and G.is_zero_term(cx, r) and o in (">=", ">"):
                    zero_ok = True
                if r == R and G.is_zero_term(cx, l) and o in ("<=", "<"):
                    zero_ok = True
        if zero_ok:
            ok, how = True, "dominating sign test"
        sites.append({"fn": cx.fn, "key": "%s|to_unsigned(%s)" % (F.fn_name(top), T.show(R)), "ok": ok, "how": how,
                      "site": cx.unit.loc(n["loc"]), "facts": [("" if p else "!") + T.show(t) for (t, p) in (facts if facts != G.EXIT else ())][:6]})
    sites = []
    for fn in db.functions:
        if fn["_unit"].file_of(fn["primary"]) in files:
            G.walk_fn(db, fn, on_site)
    agg = {}
    for s in sites:
        a = agg.setdefault(s["key"], {"ok": True, "s": s})
        if not s["ok"]:
            a["ok"] = False
            a["s"] = s
    for k, a in sorted(agg.items()):
        s = a["s"]
        if a["ok"]:
            rep.ok("SIGN", k, s["site"], F.describe(s["fn"]), how=s["how"])
        else:
            rep.fail("SIGN", k, s["site"], F.describe(s["fn"]),
                     why="cast::to_unsigned is applied to a value that may be negative (no dominating sign test): a negative operand wraps to a huge unsigned value",
                     detail={"dominating_conditions": s["facts"]})


def rule_g(rep, db, files):
    fns = [fn for fn in db.functions if fn["_unit"].file_of(fn["primary"]) in files]
    sites = G.scan(db, fns)
    entries = G.load_justified()
    agg = {}
    for s in sites:
        top = F.top_function(s["fn"])
        k = "%s|%s|%s" % (F.fn_name(top), s["op"], s["object"])
        a = agg.setdefault(k, {"ok": 0, "bad": [], "s": s})
        if s["ok"]:
            a["ok"] += 1
        else:
            a["bad"].append(s)
    for k, a in sorted(agg.items()):
        s = a["s"]
        fname = F.fn_name(F.top_function(s["fn"]))
        if not a["bad"]:
            rep.ok("G", k, s["site"], fname, how="dominating-fact")
            continue
        b = a["bad"][0]
        if fname.startswith("fcppt::math::detail::") and b["object"] in [p["name"] for p in F.top_function(b["fn"]).get("params", [])]:
            rep.ok("G", k, b["site"], fname, how="requirement-of-detail-function(caller checked by C01)")
            continue
        j = G.justified(entries, fname, b["op"], b["object"])
        if j:
            rep.ok("G", k, b["site"], fname, how="P3-justified")
            rep.justify("G", k, j["reason"])
        else:
            rep.fail("G", k, b["site"], F.describe(b["fn"]), why="%s on `%s` requires %s; no dominating fact" % (b["op"], b["object"], b["required"]),
                     detail={"dominating_conditions": b["facts"]})


class _NoTable(Exception):
    pass


def _is_zero(t):
    return t == ("k", "0") or (isinstance(t, tuple) and t and t[0] == "c" and t[1] == "fcppt::literal" and t[3] == (("k", "0"),)) \
        or (isinstance(t, tuple) and t and t[0] == "cast" and _is_zero(t[2]))


def _is_one(t):
    return t == ("k", "1") or (isinstance(t, tuple) and t and t[0] == "c" and t[1] == "fcppt::literal" and t[3] == (("k", "1"),)) \
        or (isinstance(t, tuple) and t and t[0] == "cast" and _is_one(t[2]))


def _bool_eval(t, atom, assign):
    """truth value of the boolean term t under `assign` ({atom name: sign "0" / "+" / "-"}); atom(term) names the integer quantity a
    term denotes (or None). Integer quantities enter only through their sign: conversion to bool, == 0, != 0, 0 < q, q > 0, ...
    (the caller offers "-" only for signed types: `q > 0` is `q != 0` for unsigned q and differs for a negative one). Anything else raises _NoTable (the caller reports analysis-broken, not a verdict)."""
    if t in (("k", "1"), ("k", "true")):
        return True
    if t in (("k", "0"), ("k", "false")):
        return False
    if not isinstance(t, tuple) or not t:
        raise _NoTable(str(t))
    if t[0] == "u" and t[1] == "!":
        return not _bool_eval(t[2], atom, assign)
    if t[0] == "cast" and t[1] in ("bool", "_Bool"):
        return _bool_eval(t[2], atom, assign)
    if t[0] == "b" and t[1] in ("&&", "||"):
        l = _bool_eval(t[2], atom, assign)
        if t[1] == "&&":
            return l and _bool_eval(t[3], atom, assign)
        return l or _bool_eval(t[3], atom, assign)
    if t[0] == "cond":
        return _bool_eval(t[2] if _bool_eval(t[1], atom, assign) else t[3], atom, assign)
    a = atom(t)
    if a is not None:
        return assign[a] != "0"          # an integer in a boolean context: true iff non-zero
    if t[0] == "b" and t[1] in ("==", "!=", "<", ">", "<=", ">="):
        op, l, r = t[1], t[2], t[3]
        if _is_zero(l) and atom(r) is not None:
            op, l, r = {"<": ">", ">": "<", "<=": ">=", ">=": "<="}.get(op, op), r, l
        if _is_zero(r) and atom(l) is not None:
            sg = assign[atom(l)]          # the sign of the quantity: "0", "+" or (signed types only) "-"
            return {"==": sg == "0", "!=": sg != "0", ">": sg == "+", "<=": sg != "+", ">=": sg != "-", "<": sg == "-"}[op]
    raise _NoTable(T.show(t))


def rule_mirror(rep, db):
    """is_power_of_2 and bit::test as DECISION TABLES over the zero-ness of the quantities they test, whatever the spelling
    (conditional expression / early return, implicit or explicit comparison with zero, named intermediates, operand order)."""
    seen = set()
    for fn in db.fns("fcppt::math::is_power_of_2"):
        if F.primary_site(fn) in seen:
            continue
        seen.add(F.primary_site(fn))
        u = fn["_unit"]
        t = T.return_term(u, fn)
        x = ("v", fn["params"][0]["id"], fn["params"][0]["name"])

        def atom(term, x=x):
            if term == x:
                return "x"
            if isinstance(term, tuple) and term and term[0] == "b" and term[1] == "&":
                for (p, q) in ((term[2], term[3]), (term[3], term[2])):
                    if p == x and isinstance(q, tuple) and q and q[0] == "b" and q[1] == "-" and q[2] == x and _is_one(q[3]):
                        return "x&(x-1)"
            return None
        why = None
        if t is None:
            rep.broken("C06 MIRROR is_power_of_2 at %s: the function is not a single boolean expression / early-return chain" % F.primary_site(fn))
            continue
        try:
            # x == 0 implies x & (x-1) == 0: three feasible rows
            for (zx, ze) in ((True, True), (False, True), (False, False)):
                got = _bool_eval(t, atom, {"x": "0" if zx else "+", "x&(x-1)": "0" if ze else "+"})     # T is unsigned (static_assert)
                want = (not zx) and ze
                if got != want:
                    why = "for x %s 0 and (x & (x - 1)) %s 0 the result is %s, specification x != 0 && (x & (x - 1)) == 0 (expression %s)" % (
                        "==" if zx else "!=", "==" if ze else "!=", str(got).lower(), T.show(t))
                    break
        except _NoTable as e:
            rep.broken("C06 MIRROR is_power_of_2 at %s: the result depends on `%s`, which is neither x nor x & (x - 1) tested against zero" % (F.primary_site(fn), e))
            continue
        (rep.fail if why else rep.ok)("MIRROR", "is_power_of_2", F.primary_site(fn), F.describe(fn), **({"why": why} if why else {"how": "decision table over (x == 0, x & (x-1) == 0): x != 0 && (x & (x-1)) == 0"}))
    seen = set()
    for fn in db.fns("fcppt::bit::test"):
        u = fn["_unit"]
        ty = re.sub(r"^const ", "", u.ty(fn["params"][0]["t"]) or "?")
        if ty in seen:
            continue
        seen.add(ty)
        signed = not re.match(r"^(unsigned|bool|char(8|16|32)_t|wchar_t)", ty) and ty != "char"
        t = T.return_term(u, fn)
        v0 = ("v", fn["params"][0]["id"], fn["params"][0]["name"])
        m0 = ("v", fn["params"][1]["id"], fn["params"][1]["name"])

        def atom2(term, v0=v0, m0=m0):
            if isinstance(term, tuple) and term and term[0] == "b" and term[1] == "&":
                for (p, q) in ((term[2], term[3]), (term[3], term[2])):
                    if p == v0 and isinstance(q, tuple) and q and q[0] == "c" and str(q[1]).endswith("::get") and q[2] == m0:
                        return "value&mask"
            return None
        if t is None:
            rep.broken("C06 MIRROR bit::test at %s: the function is not a single boolean expression / early-return chain" % F.primary_site(fn))
            break
        why = None
        try:
            for sg in (("0", "+", "-") if signed else ("0", "+")):
                got = _bool_eval(t, atom2, {"value&mask": sg})
                if got != (sg != "0"):
                    why = "for (value & mask) %s 0 the result is %s, specification (value & mask) != 0 (expression %s%s)" % (
                        {"0": "==", "+": ">", "-": "<"}[sg], str(got).lower(), T.show(t), "; the sign bit of a signed type makes the masked value negative" if sg == "-" else "")
                    break
        except _NoTable as e:
            rep.broken("C06 MIRROR bit::test at %s: the result depends on `%s`, which is not value & mask.get() tested against zero" % (F.primary_site(fn), e))
            continue
        (rep.fail if why else rep.ok)("MIRROR", "bit::test<%s>" % ty, F.primary_site(fn), F.describe(fn), **({"why": why} if why else {"how": "decision table: (value & mask) != 0"}))


# ------------------------------------------------------------------------------------------------
# ARITH: no intermediate of the exact-result helpers can leave the type although the result fits

ARITH_FILES = ("math/ceil_div.hpp", "math/ceil_div_signed.hpp", "math/div.hpp", "math/mod.hpp", "math/clamp.hpp", "math/diff.hpp",
               "math/detail/diff.hpp", "math/is_power_of_2.hpp", "math/next_power_of_2.hpp", "math/log2.hpp", "math/power_of_2.hpp")
ARITH_JUSTIFIED = {
    # (function, operator, operand shape) -> reason; printed on every run
    ("fcppt::math::detail::diff", "-", "signed"): "signed instantiation: |a - b| representable in T implies a - b representable in T (C01/C06 quantify over representable exact results)",
}


def _bounded(u, x):
    """an operand whose magnitude is bounded independently of the arguments: literal / constant, Boolean, comparison,
    sizeof, or a conditional between such values"""
    x = T.unwrap(u, x)
    while x is not None and x.get("k") in ("icast", "cast"):
        x = T.unwrap(u, x.get("e"))
    if x is None:
        return True
    if x.get("k") in ("lit", "sizeof") or "c" in x:
        return True
    if x.get("k") == "call" and (T.callee_qn(u, x) or "") == "fcppt::literal":
        return True
    if (u.ty(x.get("t")) or "").replace("const ", "") == "bool":
        return True
    if x.get("k") == "binop" and x.get("op") in ("<", ">", "<=", ">=", "==", "!=", "&&", "||"):
        return True
    if x.get("k") == "cond":
        return _bounded(u, x.get("then")) and _bounded(u, x.get("else"))
    return False


def _max_minus_min(l, r):
    """l is std::max(a, b) and r is std::min of the same two operands"""
    def strip(t):
        while isinstance(t, tuple) and t and t[0] == "cast":
            t = t[2]
        return t
    l, r = strip(l), strip(r)
    return (isinstance(l, tuple) and isinstance(r, tuple) and l and r and l[0] == "c" and r[0] == "c" and str(l[1]) == "std::max" and str(r[1]) == "std::min"
            and len(l[3]) == 2 and len(r[3]) == 2 and frozenset(l[3]) == frozenset(r[3]))


def rule_arith(rep, db):
    seen = {}

    def walk(u, fn, n, ordered):
        if n is None:
            return
        if isinstance(n, list):
            for c in n:
                walk(u, fn, c, ordered)
            return
        k = n.get("k")
        if k == "lambda":
            for op in n.get("ops", []):
                walk(u, fn, op.get("body"), ordered)
            return
        if k in ("cond", "if"):
            c = n.get("c_") if k == "cond" else n.get("cond")
            walk(u, fn, c, ordered)
            ct = T.unwrap(u, c)
            extra = set()
            if ct is not None and (ct.get("k") == "binop" and ct.get("op") in ("<", "<=", ">", ">=")):
                extra.add(frozenset((T.norm(u, ct["l"]), T.norm(u, ct["r"]))))
            elif ct is not None and ct.get("k") == "call" and ct.get("opcall") in ("<", "<=", ">", ">="):
                ops = ([ct["recv"]] if ct.get("recv") is not None else []) + list(ct.get("args", []))
                if len(ops) == 2:
                    extra.add(frozenset((T.norm(u, ops[0]), T.norm(u, ops[1]))))
            for b in ("then", "else"):
                walk(u, fn, n.get(b), ordered | extra)
            return
        if (k == "binop" and n.get("op") in ("+", "-", "*")) or (k == "compound_assign" and n.get("op") in ("+=", "-=", "*=")):
            ty = (u.ty(n.get("t")) or "").replace("const ", "")
            if G.is_integer_type(ty) and not _bounded(u, n["l"]) and not _bounded(u, n["r"]):
                op = n["op"][0]
                name = F.fn_name(F.top_function(fn))
                signed = RG.INT_TYPES.get(ty, (0, False))[1]
                key = "%s|%s|%s|%s" % (name, op, T.show(T.norm(u, n)), "signed" if signed else "unsigned")
                ok = None
                if op == "-" and frozenset((T.norm(u, n["l"]), T.norm(u, n["r"]))) in ordered:
                    ok = "operands ordered by the enclosing comparison"
                elif op == "-" and _max_minus_min(T.norm(u, n["l"]), T.norm(u, n["r"])):
                    ok = "std::max(a, b) - std::min(a, b): ordered by construction"
                elif (name, op, "signed" if signed else "unsigned") in ARITH_JUSTIFIED:
                    ok = "justified"
                    if key not in seen:
                        rep.justify("ARITH", key, ARITH_JUSTIFIED[(name, op, "signed" if signed else "unsigned")])
                a = seen.setdefault(key, {"ok": ok, "site": u.loc(n.get("loc")), "fn": F.describe(fn)[:160], "types": set()})
                a["types"].add(ty)
                if ok is None:
                    a["ok"] = None
        for c in F.children(n):
            walk(u, fn, c, ordered)
    nfn = 0
    for u in db.units:
        for fn in u.functions:
            f = u.file_of(fn["primary"])
            if not any(f.endswith("fcppt/" + x) for x in ARITH_FILES):
                continue
            nfn += 1
            walk(u, fn, fn.get("body"), frozenset())
    rep.extra["arith_functions_scanned"] = nfn
    if nfn < 20:
        rep.broken("ARITH: only %d instantiations of the integer helpers scanned" % nfn)
    for key, a in sorted(seen.items()):
        if a["ok"]:
            rep.ok("ARITH", key, a["site"], a["fn"], how=a["ok"], detail={"types": sorted(a["types"])})
        else:
            rep.fail("ARITH", key, a["site"], a["fn"],
                     why="both operands of this %s depend on the arguments without bound (types %s): the intermediate can leave the type "
                         "(wrap for unsigned, undefined for signed) although the exact result of the function is representable"
                         % (key.split("|")[1], ", ".join(sorted(a["types"]))))
    if not seen:
        rep.ok("ARITH", "no-two-sided-arithmetic", "libs/core/include/fcppt/math", "integer helpers", how="census: no +, -, * with two argument-dependent operands")


def main(rep, tier, only):
    db = load.load(tier, lib=False, drivers=["drv_integers"], tests=False)   # rule tables over the driver's type registry (DESIGN §3)
    rep.extra.update(db.stats())
    files = set("libs/core/include/fcppt/" + f for f in FILES)
    rep.rule("TC", "truncation_check<D,S>: some(x) with x preserved exactly on the source regions inside D's range, nothing elsewhere (64 type pairs)", floor=64)
    rep.rule("FI", "enum_::from_int: enumerator exactly for values below the enum size; no lossy conversion before the comparison", floor=6)
    rep.rule("CLAMP", "math::clamp: nothing iff min > max, otherwise max(min(v, max), min) (13 weak orders)", floor=2)
    rep.rule("SIGN", "cast::to_unsigned in the C06 functions is dominated by a sign test of the same operand (or applied to a non-negative constant)", floor=2)
    rep.rule("G", "zero-divisor / shift / unsafe-access guards in the C06 files", floor=8)
    rep.rule("ARITH", "in the exact-result integer helpers (ceil_div, ceil_div_signed, div, mod, clamp, diff, is_power_of_2, next_power_of_2, log2, power_of_2) "
                      "no +, -, * has two operands that both depend on the arguments without bound, unless the operands of a subtraction are ordered by "
                      "the enclosing comparison (or a named justification): such an intermediate can wrap / overflow although the exact result fits", floor=1)
    rep.rule("MIRROR", "is_power_of_2 = (x != 0 && (x & (x - 1)) == 0) and bit::test = ((value & mask) != 0), as decision tables over the zero-ness of the tested quantities", floor=2)
    rep.rule("W-types", "type-level witnesses: overload partition of truncation_check over 64 pairs, accepted / rejected argument types, return types", floor=200)
    have = set(fn["_unit"].file_of(fn["primary"]) for fn in db.functions)
    miss = [f for f in files if f not in have and not f.endswith("truncation_check.hpp") or (f.endswith("/truncation_check.hpp") and f not in have)]
    miss = [f for f in files if f not in have]
    if miss:
        rep.broken("C06 anchor files without analysed function: %s" % sorted(miss))
    if only in (None, "TC"):
        rule_tc(rep, db)
    if only in (None, "FI"):
        rule_from_int(rep, db)
    if only in (None, "CLAMP"):
        rule_clamp(rep, db)
    if only in (None, "SIGN"):
        rule_sign(rep, db, files)
    if only in (None, "G"):
        rule_g(rep, db, files)
    if only in (None, "MIRROR"):
        rule_mirror(rep, db)
    if only in (None, "ARITH"):
        rule_arith(rep, db)
    if only in (None, "W-types"):
        cd = P.cache_dir()
        path = os.path.join(P.VERIF, "witness", "c06_casts.cpp")
        wits, fails = W.run_witness_file(cd, path)
        if None in fails:
            rep.broken("witness TU c06_casts.cpp has unattributed diagnostics: " + fails[None][0]["msg"])
        for (wid, text, a, z) in wits:
            site = "verif:witness/c06_casts.cpp:%d" % a
            if wid in fails:
                f = fails[wid]
                lib = next((x["lib_site"] for x in f if x["lib_site"]), None)
                rep.fail("W-types", wid, lib or site, text, why="does not compile: " + f[0]["msg"])
            else:
                rep.ok("W-types", wid, site, text, how="compiles")
    rep.extra["exhaustive"] = True
    if only in (None, "QUOT"):
        from checks import c06_div
        c06_div.rules(rep, db)
    rep.explanation = ("Conversions: abstract interpretation of the real call chain per integer region of the source (finite domain; every "
                       "comparison is against a constant, every conversion inside a region is value-preserving, a uniform wrap, or flagged). "
                       "clamp over weak orders. Guards by structured dominance. No value of the library is computed.")
    rep.trusted = ["clang 14 front end and constant folder (numeric_limits, enum sizes)", "two's-complement conversion semantics (C++20)"]
    rep.assumptions = ["exact quotient / rounding results of ceil_div*, next_power_of_2, log2, interval_distance, diff are not decided"]
