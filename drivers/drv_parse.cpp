// Instantiation driver for fcppt.parse: every combinator over OPAQUE sub-parsers / skippers
// (declared-only parse/skip members), the real leaf parsers and skippers, the operators, the
// error/position/stream helpers and the entry points, for Ch in {char, wchar_t} and
// Skipper in {opaque stub_skipper, skipper::epsilon}. Never linked or run.
#include "drv.hpp"
#include <fcppt/function_impl.hpp>
#include <fcppt/make_cref.hpp>
#include <fcppt/make_ref.hpp>
#include <fcppt/recursive_impl.hpp>
#include <fcppt/reference_impl.hpp>
#include <fcppt/unique_ptr_impl.hpp>
#include <fcppt/unit.hpp>
#include <fcppt/either/object_impl.hpp>
#include <fcppt/optional/object_impl.hpp>
#include <fcppt/tuple/object_impl.hpp>
#include <fcppt/variant/object_impl.hpp>
#include <fcppt/parse/alternative_decl.hpp>
#include <fcppt/parse/alternative_impl.hpp>
#include <fcppt/parse/alternative_result.hpp>
#include <fcppt/parse/as_struct.hpp>
#include <fcppt/parse/base_decl.hpp>
#include <fcppt/parse/base_impl.hpp>
#include <fcppt/parse/base_unique_ptr.hpp>
#include <fcppt/parse/basic_char.hpp>
#include <fcppt/parse/basic_char_set.hpp>
#include <fcppt/parse/basic_char_set_container.hpp>
#include <fcppt/parse/basic_literal.hpp>
#include <fcppt/parse/basic_stream_decl.hpp>
#include <fcppt/parse/basic_stream_impl.hpp>
#include <fcppt/parse/basic_string.hpp>
#include <fcppt/parse/blank.hpp>
#include <fcppt/parse/blank_set.hpp>
#include <fcppt/parse/char.hpp>
#include <fcppt/parse/char_set.hpp>
#include <fcppt/parse/column.hpp>
#include <fcppt/parse/complement_decl.hpp>
#include <fcppt/parse/complement_impl.hpp>
#include <fcppt/parse/construct.hpp>
#include <fcppt/parse/convert.hpp>
#include <fcppt/parse/convert_const.hpp>
#include <fcppt/parse/convert_if.hpp>
#include <fcppt/parse/deref.hpp>
#include <fcppt/parse/deref_type.hpp>
#include <fcppt/parse/digits.hpp>
#include <fcppt/parse/epsilon.hpp>
#include <fcppt/parse/error.hpp>
#include <fcppt/parse/error_add.hpp>
#include <fcppt/parse/error_equal.hpp>
#include <fcppt/parse/error_output.hpp>
#include <fcppt/parse/fail.hpp>
#include <fcppt/parse/fatal_decl.hpp>
#include <fcppt/parse/fatal_impl.hpp>
#include <fcppt/parse/fatal_tag.hpp>
#include <fcppt/parse/float.hpp>
#include <fcppt/parse/get_char.hpp>
#include <fcppt/parse/get_char_error.hpp>
#include <fcppt/parse/get_position.hpp>
#include <fcppt/parse/grammar.hpp>
#include <fcppt/parse/grammar_parse_stream.hpp>
#include <fcppt/parse/grammar_parse_string.hpp>
#include <fcppt/parse/ignore.hpp>
#include <fcppt/parse/int.hpp>
#include <fcppt/parse/lexeme.hpp>
#include <fcppt/parse/line.hpp>
#include <fcppt/parse/list.hpp>
#include <fcppt/parse/literal.hpp>
#include <fcppt/parse/location.hpp>
#include <fcppt/parse/location_equal.hpp>
#include <fcppt/parse/location_output.hpp>
#include <fcppt/parse/make_base.hpp>
#include <fcppt/parse/make_convert.hpp>
#include <fcppt/parse/make_convert_if.hpp>
#include <fcppt/parse/make_fatal.hpp>
#include <fcppt/parse/make_ignore.hpp>
#include <fcppt/parse/make_lexeme.hpp>
#include <fcppt/parse/make_literal.hpp>
#include <fcppt/parse/make_recursive.hpp>
#include <fcppt/parse/make_success.hpp>
#include <fcppt/parse/named.hpp>
#include <fcppt/parse/not_decl.hpp>
#include <fcppt/parse/not_impl.hpp>
#include <fcppt/parse/optional_decl.hpp>
#include <fcppt/parse/optional_impl.hpp>
#include <fcppt/parse/parse.hpp>
#include <fcppt/parse/parse_stream.hpp>
#include <fcppt/parse/parse_string.hpp>
#include <fcppt/parse/phrase_parse.hpp>
#include <fcppt/parse/phrase_parse_stream.hpp>
#include <fcppt/parse/phrase_parse_string.hpp>
#include <fcppt/parse/position.hpp>
#include <fcppt/parse/position_equal.hpp>
#include <fcppt/parse/position_output.hpp>
#include <fcppt/parse/recursive.hpp>
#include <fcppt/parse/repetition_decl.hpp>
#include <fcppt/parse/repetition_impl.hpp>
#include <fcppt/parse/repetition_plus_decl.hpp>
#include <fcppt/parse/repetition_plus_impl.hpp>
#include <fcppt/parse/result.hpp>
#include <fcppt/parse/separator.hpp>
#include <fcppt/parse/sequence_decl.hpp>
#include <fcppt/parse/sequence_impl.hpp>
#include <fcppt/parse/set_position.hpp>
#include <fcppt/parse/space.hpp>
#include <fcppt/parse/space_set.hpp>
#include <fcppt/parse/string.hpp>
#include <fcppt/parse/uint.hpp>
#include <fcppt/parse/detail/check_bad.hpp>
#include <fcppt/parse/detail/combine_tuples.hpp>
#include <fcppt/parse/detail/concrete_impl.hpp>
#include <fcppt/parse/detail/consume_remaining.hpp>
#include <fcppt/parse/detail/exception.hpp>
#include <fcppt/parse/detail/expected.hpp>
#include <fcppt/parse/detail/flatten_tuples.hpp>
#include <fcppt/parse/detail/make_alternative.hpp>
#include <fcppt/parse/detail/make_tuple.hpp>
#include <fcppt/parse/detail/sequence_result.hpp>
#include <fcppt/parse/detail/stream_decl.hpp>
#include <fcppt/parse/detail/stream_impl.hpp>
#include <fcppt/parse/operators/alternative.hpp>
#include <fcppt/parse/operators/complement.hpp>
#include <fcppt/parse/operators/not.hpp>
#include <fcppt/parse/operators/optional.hpp>
#include <fcppt/parse/operators/repetition.hpp>
#include <fcppt/parse/operators/repetition_plus.hpp>
#include <fcppt/parse/operators/sequence.hpp>
#include <fcppt/parse/skipper/basic_char_set.hpp>
#include <fcppt/parse/skipper/basic_literal.hpp>
#include <fcppt/parse/skipper/basic_space.hpp>
#include <fcppt/parse/skipper/char_set.hpp>
#include <fcppt/parse/skipper/epsilon.hpp>
#include <fcppt/parse/skipper/literal.hpp>
#include <fcppt/parse/skipper/make_failure.hpp>
#include <fcppt/parse/skipper/make_success.hpp>
#include <fcppt/parse/skipper/repetition_decl.hpp>
#include <fcppt/parse/skipper/repetition_impl.hpp>
#include <fcppt/parse/skipper/result.hpp>
#include <fcppt/parse/skipper/run.hpp>
#include <fcppt/parse/skipper/sequence_decl.hpp>
#include <fcppt/parse/skipper/sequence_impl.hpp>
#include <fcppt/parse/skipper/space.hpp>
#include <fcppt/parse/skipper/tag.hpp>
#include <fcppt/parse/skipper/operators/repetition.hpp>
#include <fcppt/parse/skipper/operators/sequence.hpp>
#include <initializer_list>
#include <istream>
#include <ostream>
#include <sstream>
#include <string>
#include <vector>

namespace drv_parse
{
namespace P = fcppt::parse;
namespace S = fcppt::parse::skipper;
using drv::clv;
using drv::lv;
using drv::make;
using fcppt::unit;

// distinct, mutually non-convertible result types
struct RA
{
  int a;
};
struct RB
{
  int b;
};
struct RC
{
  int c;
};
// aggregates built from results (as_struct / construct)
struct SAB
{
  RA a;
  RB b;
};
struct WA
{
  RA a;
};

template <typename Ch>
using stream_ref = fcppt::reference<P::basic_stream<Ch>>;

// OPAQUE parser: a parser is any type deriving from fcppt::parse::tag with a result_type and
// a member template parse<Ch, Skipper>; the member is declared only.
template <int Tag, typename R>
struct stub : P::tag
{
  using result_type = R;
  template <typename Ch, typename Skipper>
  [[nodiscard]] P::result<Ch, R> parse(stream_ref<Ch>, Skipper const &) const;
};
// OPAQUE skipper
struct stub_skipper : S::tag
{
  template <typename Ch>
  [[nodiscard]] S::result<Ch> skip(stream_ref<Ch>) const;
};

using pa = stub<1, RA>;
using pb = stub<2, RB>;
using pc = stub<3, RC>;
using pa2 = stub<4, RA>;
using pu = stub<5, unit>;
using pu2 = stub<6, unit>;
using pu3 = stub<7, unit>;
using pch = stub<8, char>;
using pwch = stub<9, wchar_t>;
using pvar = stub<10, fcppt::variant::object<RA, RB>>;
using ptup = stub<11, fcppt::tuple::object<RA, RB>>;
using eps = S::epsilon;
template <typename S>
using fn = drv::fn<S>;

// call parse<Ch, Skipper> on a const lvalue of the parser type
#define DRV_PARSE(Ch, Sk, ...) \
  (void)clv<__VA_ARGS__>().parse(make<stream_ref<Ch>>(), clv<Sk>())
// fixed character type, both skippers
#define DRV_PARSE_CH(Ch, ...) \
  DRV_PARSE(Ch, stub_skipper, __VA_ARGS__); \
  DRV_PARSE(Ch, eps, __VA_ARGS__)
// both character types, both skippers
#define DRV_PARSE_ALL(...) \
  DRV_PARSE_CH(char, __VA_ARGS__); \
  DRV_PARSE_CH(wchar_t, __VA_ARGS__)

// ---- combinators over stubs -------------------------------------------------------------
DRV(comb_sequence)
{
  (void)P::sequence<pa, pb>{make<pa>(), make<pb>()};
  DRV_PARSE_ALL(P::sequence<pa, pb>);
  // nested: tuple flattening (detail/sequence_result, combine_tuples, flatten_tuples, make_tuple)
  (void)P::sequence<P::sequence<pa, pb>, pc>{make<P::sequence<pa, pb>>(), make<pc>()};
  DRV_PARSE_ALL(P::sequence<P::sequence<pa, pb>, pc>);
  DRV_PARSE_ALL(P::sequence<pa, P::sequence<pb, pc>>);
  DRV_PARSE_ALL(P::sequence<P::sequence<pa, pb>, P::sequence<pc, pa2>>);
  DRV_PARSE_ALL(P::sequence<ptup, pc>);
  // unit on either side
  DRV_PARSE_ALL(P::sequence<pu, pa>);
  DRV_PARSE_ALL(P::sequence<pa, pu>);
  DRV_PARSE_ALL(P::sequence<pu, pu2>);
  DRV_PARSE_ALL(P::sequence<P::sequence<pu, pa>, P::sequence<pb, pu2>>);
}
DRV(comb_sequence_result)
{
  (void)P::detail::sequence_result(make<unit>(), make<unit>());
  (void)P::detail::sequence_result(make<RA>(), make<unit>());
  (void)P::detail::sequence_result(make<unit>(), make<RB>());
  (void)P::detail::sequence_result(make<RA>(), make<RB>());
  (void)P::detail::sequence_result(make<fcppt::tuple::object<RA, RB>>(), make<RC>());
  (void)P::detail::sequence_result(make<RC>(), make<fcppt::tuple::object<RA, RB>>());
  (void)P::detail::sequence_result(
      make<fcppt::tuple::object<RA, RB>>(), make<fcppt::tuple::object<RC, RA>>());
  (void)P::detail::combine_tuples(make<RA>(), make<fcppt::tuple::object<RB, RC>>());
  (void)P::detail::flatten_tuples(make<RA>(), make<fcppt::tuple::object<RB, RC>>(), make<RA>());
  (void)P::detail::make_tuple(make<RA>());
  (void)P::detail::make_tuple(clv<RA>());
  (void)P::detail::make_tuple(make<fcppt::tuple::object<RA, RB>>());
  (void)P::detail::make_tuple(clv<fcppt::tuple::object<RA, RB>>());
}
DRV(comb_alternative)
{
  (void)P::alternative<pa, pa2>{make<pa>(), make<pa2>()};
  // same result type: result is RA
  DRV_PARSE_ALL(P::alternative<pa, pa2>);
  // different result types: result is variant<RA, RB>
  (void)P::alternative<pa, pb>{make<pa>(), make<pb>()};
  DRV_PARSE_ALL(P::alternative<pa, pb>);
  // nested: variant merging
  DRV_PARSE_ALL(P::alternative<P::alternative<pa, pb>, pc>);
  DRV_PARSE_ALL(P::alternative<pa, P::alternative<pb, pc>>);
  DRV_PARSE_ALL(P::alternative<pvar, pc>);
  DRV_PARSE_ALL(P::alternative<pvar, pa>);
  DRV_PARSE_ALL(P::alternative<P::alternative<pa, pb>, P::alternative<pb, pc>>);
}
DRV(comb_make_alternative)
{
  using vAB = fcppt::variant::object<RA, RB>;
  using vABC = fcppt::variant::object<RA, RB, RC>;
  (void)P::detail::make_alternative<RA>(make<RA>());
  (void)P::detail::make_alternative<vAB>(make<RA>());
  (void)P::detail::make_alternative<vAB>(make<RB>());
  (void)P::detail::make_alternative<vABC>(make<vAB>());
  (void)P::detail::make_alternative<vABC>(clv<vAB>());
}
DRV(comb_repetition)
{
  (void)P::repetition<pa>{make<pa>()};
  DRV_PARSE_ALL(P::repetition<pa>);
  DRV_PARSE_ALL(P::repetition<pu>);
  // character results are collected into a string
  DRV_PARSE_CH(char, P::repetition<pch>);
  DRV_PARSE_CH(wchar_t, P::repetition<pwch>);
  (void)P::repetition_plus<pa>{make<pa>()};
  DRV_PARSE_ALL(P::repetition_plus<pa>);
  DRV_PARSE_CH(char, P::repetition_plus<pch>);
  DRV_PARSE_CH(wchar_t, P::repetition_plus<pwch>);
}
DRV(comb_optional)
{
  (void)P::optional<pa>{make<pa>()};
  DRV_PARSE_ALL(P::optional<pa>);
  DRV_PARSE_ALL(P::optional<pu>);
}
DRV(comb_not)
{
  (void)P::not_<pu>{make<pu>()};
  DRV_PARSE_ALL(P::not_<pu>);
}
DRV(comb_fatal)
{
  (void)P::fatal<pa>{make<pa>()};
  (void)P::make_fatal(make<pa>());
  (void)P::make_fatal(fcppt::make_cref(clv<pa>()));
  DRV_PARSE_ALL(P::fatal<pa>);
}
DRV(comb_lexeme)
{
  (void)P::lexeme<pa>{make<pa>()};
  (void)P::make_lexeme(make<pa>());
  (void)P::make_lexeme(fcppt::make_cref(clv<pa>()));
  DRV_PARSE_ALL(P::lexeme<pa>);
}
DRV(comb_ignore)
{
  (void)P::ignore<pa>{make<pa>()};
  (void)P::make_ignore(make<pa>());
  (void)P::make_ignore(fcppt::make_cref(clv<pa>()));
  DRV_PARSE_ALL(P::ignore<pa>);
}
DRV(comb_separator)
{
  (void)P::separator<pa, pu>{make<pa>(), make<pu>()};
  (void)P::separator{make<pa>(), make<pu>()};
  DRV_PARSE_ALL(P::separator<pa, pu>);
}
DRV(comb_list)
{
  (void)P::list<pu, pa, pu2, pu3>{make<pu>(), make<pa>(), make<pu2>(), make<pu3>()};
  (void)P::list{make<pu>(), make<pa>(), make<pu2>(), make<pu3>()};
  DRV_PARSE_ALL(P::list<pu, pa, pu2, pu3>);
}
DRV(comb_convert)
{
  using conv = P::convert<pa, RB>;
  (void)conv{make<pa>(), make<conv::function_type>()};
  (void)conv{make<pa>(), conv::function_type{clv<fn<RB(RA &&)>>()}};
  (void)P::make_convert(make<pa>(), clv<fn<RB(RA &&)>>());
  (void)P::make_convert(fcppt::make_cref(clv<pa>()), make<fn<RB(RA &&)>>());
  DRV_PARSE_ALL(conv);
}
DRV(comb_convert_const)
{
  (void)P::convert_const<pu, RA>{make<pu>(), make<RA>()};
  (void)P::convert_const{make<pu>(), make<RA>()};
  DRV_PARSE_ALL(P::convert_const<pu, RA>);
}
DRV(comb_convert_if)
{
  using cc = P::convert_if<char, pa, RB>;
  using cw = P::convert_if<wchar_t, pa, RB>;
  (void)cc{make<pa>(), make<cc::function_type>()};
  (void)cw{make<pa>(), make<cw::function_type>()};
  (void)P::make_convert_if(make<pa>(), clv<fn<P::result<char, RB>(RA &&)>>());
  (void)P::make_convert_if(make<pa>(), clv<fn<P::result<wchar_t, RB>(RA &&)>>());
  (void)P::make_convert_if(fcppt::make_cref(clv<pa>()), clv<fn<P::result<wchar_t, RB>(RA &&)>>());
  DRV_PARSE_CH(char, cc);
  DRV_PARSE_CH(wchar_t, cw);
}
DRV(comb_construct)
{
  (void)P::construct<WA>(make<pa>());
  (void)P::construct<WA>(fcppt::make_cref(clv<pa>()));
  DRV_PARSE_ALL(decltype(P::construct<WA>(make<pa>())));
}
DRV(comb_as_struct)
{
  (void)P::as_struct<SAB>(make<P::sequence<pa, pb>>());
  (void)P::as_struct<SAB>(make<ptup>());
  (void)P::as_struct<SAB>(fcppt::make_cref(clv<ptup>()));
  DRV_PARSE_ALL(decltype(P::as_struct<SAB>(make<P::sequence<pa, pb>>())));
}
DRV(comb_named)
{
  (void)P::named<char, pa>{make<pa>(), make<std::string>()};
  (void)P::named<wchar_t, pa>{make<pa>(), make<std::wstring>()};
  (void)P::named{make<pa>(), make<std::string>()};
  DRV_PARSE_CH(char, P::named<char, pa>);
  DRV_PARSE_CH(wchar_t, P::named<wchar_t, pa>);
}
DRV(comb_recursive)
{
  (void)P::recursive<pa>{make<pa>()};
  (void)P::make_recursive(make<pa>());
  (void)P::make_recursive(fcppt::make_cref(clv<pa>()));
  DRV_PARSE_ALL(P::recursive<pa>);
}
// ---- deref: parsers held by reference or unique_ptr ---------------------------------------
DRV(comb_deref)
{
  using rpa = fcppt::reference<pa const>;
  using bp = P::base_unique_ptr<RA, char, stub_skipper>;
  (void)P::deref(clv<pa>());
  (void)P::deref(clv<rpa>());
  (void)P::deref(clv<bp>());
  (void)P::deref(clv<fcppt::reference<bp const>>());
  DRV_PARSE_ALL(P::sequence<rpa, pb>);
  DRV_PARSE_ALL(P::alternative<rpa, fcppt::reference<pb const>>);
  DRV_PARSE_ALL(P::repetition<rpa>);
  DRV_PARSE_ALL(P::optional<rpa>);
  DRV_PARSE_ALL(P::fatal<rpa>);
  DRV_PARSE_ALL(P::ignore<rpa>);
  DRV_PARSE_ALL(P::lexeme<rpa>);
  DRV_PARSE_ALL(P::recursive<rpa>);
  DRV_PARSE_ALL(P::separator<rpa, fcppt::reference<pu const>>);
  // a base_unique_ptr sub-parser fixes Ch and Skipper
  DRV_PARSE(char, stub_skipper, P::sequence<bp, pb>);
  DRV_PARSE(char, stub_skipper, P::repetition<fcppt::reference<bp const>>);
  (void)(fcppt::make_cref(clv<pa>()) >> fcppt::make_cref(clv<pb>()));
  (void)(fcppt::make_cref(clv<pa>()) | fcppt::make_cref(clv<pb>()));
  (void)*fcppt::make_cref(clv<pa>());
  (void)(make<bp>() >> make<pb>());
}
// ---- base / make_base / detail::concrete -------------------------------------------------
// make_base does not accept reference-wrapped parsers: detail::concrete::parse does not deref
#define DRV_BASE(Ch, Sk) \
  (void)P::make_base<Ch, Sk>(make<pa>()); \
  (void)P::make_base<Ch, Sk>(make<P::sequence<pa, pb>>()); \
  (void)clv<P::base<RA, Ch, Sk>>().parse(make<stream_ref<Ch>>(), clv<Sk>()); \
  (void)(*clv<P::base_unique_ptr<RA, Ch, Sk>>()).parse(make<stream_ref<Ch>>(), clv<Sk>()); \
  (void)clv<P::detail::concrete<pa, Ch, Sk>>().parse(make<stream_ref<Ch>>(), clv<Sk>())
DRV(base_char_stub) { DRV_BASE(char, stub_skipper); }
DRV(base_char_eps) { DRV_BASE(char, eps); }
DRV(base_wchar_stub) { DRV_BASE(wchar_t, stub_skipper); }
DRV(base_wchar_eps) { DRV_BASE(wchar_t, eps); }
}
template class fcppt::parse::detail::concrete<drv_parse::pb, char, drv_parse::stub_skipper>;
template class fcppt::parse::detail::concrete<drv_parse::pb, wchar_t, fcppt::parse::skipper::epsilon>;
namespace drv_parse
{
// ---- grammar ------------------------------------------------------------------------------
#define DRV_GRAMMAR(Ch, Sk) \
  using g = P::grammar<RA, Ch, Sk>; \
  g const gr{make<fcppt::reference<g::base_type<RA> const>>(), make<Sk>()}; \
  (void)gr.start(); \
  (void)gr.skipper(); \
  (void)g::make_base(make<pa>()); \
  (void)g::make_base(make<pb>()); \
  (void)P::grammar_parse_string(make<std::basic_string<Ch>>(), gr); \
  (void)P::grammar_parse_stream(lv<std::basic_istream<Ch>>(), gr); \
  (void)P::grammar_parse_stream(lv<std::basic_istringstream<Ch>>(), gr)
DRV(grammar_char_stub) { DRV_GRAMMAR(char, stub_skipper); }
DRV(grammar_char_eps) { DRV_GRAMMAR(char, eps); }
DRV(grammar_wchar_stub) { DRV_GRAMMAR(wchar_t, stub_skipper); }
DRV(grammar_wchar_eps) { DRV_GRAMMAR(wchar_t, eps); }
// a grammar as it is written by users (see test/parse/grammar.cpp)
class user_grammar : public P::grammar<RA, char, stub_skipper>
{
public:
  user_grammar()
      : grammar_base{fcppt::make_cref(this->start_), make<stub_skipper>()},
        start_{grammar_base::make_base(make<pa>())}
  {
  }

private:
  grammar_base::base_type<RA> start_;
};
DRV(grammar_user)
{
  (void)P::grammar_parse_string(make<std::string>(), user_grammar{});
  (void)P::grammar_parse_stream(lv<std::istringstream>(), user_grammar{});
}
// ---- operators on stubs (rvalue and const-lvalue operands) --------------------------------
DRV(ops_sequence)
{
  (void)(make<pa>() >> make<pb>());
  // lvalue operands must be wrapped: the combinator constructors only take rvalues
  (void)(fcppt::make_cref(clv<pa>()) >> fcppt::make_cref(clv<pb>()));
  (void)(make<pa>() >> fcppt::make_cref(clv<pb>()));
  (void)(fcppt::make_cref(clv<pa>()) >> make<pb>());
  (void)(make<pa>() >> make<pb>() >> make<pc>());
  (void)(make<pa>() >> (make<pb>() >> make<pc>()));
  DRV_PARSE_ALL(decltype(make<pu>() >> make<pa>() >> make<pb>() >> make<pu2>() >> make<pc>()));
}
DRV(ops_alternative)
{
  (void)(make<pa>() | make<pb>());
  (void)(fcppt::make_cref(clv<pa>()) | fcppt::make_cref(clv<pb>()));
  (void)(make<pa>() | fcppt::make_cref(clv<pa2>()));
  (void)(make<pa>() | make<pb>() | make<pc>());
  DRV_PARSE_ALL(decltype(make<pa>() | make<pb>() | make<pc>() | make<pa2>()));
}
DRV(ops_unary)
{
  (void)*make<pa>();
  (void)*fcppt::make_cref(clv<pa>());
  (void)+make<pa>();
  (void)+fcppt::make_cref(clv<pa>());
  (void)-make<pa>();
  (void)-fcppt::make_cref(clv<pa>());
  (void)!make<pu>();
  (void)!fcppt::make_cref(clv<pu>());
  DRV_PARSE_ALL(decltype(*(make<pa>() >> -make<pb>() >> !make<pu>()) | +make<pc>()));
}
// ---- leaf parsers -------------------------------------------------------------------------
#define DRV_LEAVES(Ch) \
  (void)P::basic_literal<Ch>{make<Ch>()}; \
  (void)P::make_literal(make<Ch>()); \
  DRV_PARSE_CH(Ch, P::basic_literal<Ch>); \
  (void)P::basic_char<Ch>{}; \
  DRV_PARSE_CH(Ch, P::basic_char<Ch>); \
  (void)P::basic_char_set<Ch>{make<Ch>(), make<Ch>()}; \
  (void)P::basic_char_set<Ch>{clv<std::initializer_list<Ch>>()}; \
  (void)P::basic_char_set<Ch>{make<P::basic_char_set_container<Ch>>()}; \
  (void)clv<P::basic_char_set<Ch>>().chars(); \
  DRV_PARSE_CH(Ch, P::basic_char_set<Ch>); \
  (void)P::basic_string<Ch>{make<std::basic_string<Ch>>()}; \
  DRV_PARSE_CH(Ch, P::basic_string<Ch>); \
  (void)P::complement<P::basic_char_set<Ch>>{make<P::basic_char_set<Ch>>()}; \
  (void)~make<P::basic_char_set<Ch>>(); \
  (void)~fcppt::make_cref(clv<P::basic_char_set<Ch>>()); \
  DRV_PARSE_CH(Ch, P::complement<P::basic_char_set<Ch>>); \
  DRV_PARSE_CH(Ch, P::complement<fcppt::reference<P::basic_char_set<Ch> const>>); \
  (void)P::digits<Ch>(); \
  (void)P::blank_set<Ch>(); \
  (void)P::space_set<Ch>(); \
  DRV_PARSE_CH(Ch, P::epsilon); \
  DRV_PARSE_CH(Ch, P::fail<RA>); \
  DRV_PARSE_CH(Ch, P::int_<int>); \
  DRV_PARSE_CH(Ch, P::int_<long long>); \
  DRV_PARSE_CH(Ch, P::uint<unsigned>); \
  DRV_PARSE_CH(Ch, P::uint<unsigned long long>); \
  DRV_PARSE_CH(Ch, P::float_<float>); \
  DRV_PARSE_CH(Ch, P::float_<double>)
DRV(leaves_char) { DRV_LEAVES(char); }
DRV(leaves_wchar) { DRV_LEAVES(wchar_t); }
DRV(leaves_ctors)
{
  (void)P::epsilon{};
  (void)P::fail<RA>{};
  (void)P::int_<int>{};
  (void)P::int_<long long>{};
  (void)P::uint<unsigned>{};
  (void)P::uint<unsigned long long>{};
  (void)P::float_<float>{};
  (void)P::float_<double>{};
  (void)P::char_{};
  (void)P::literal{make<char>()};
  (void)P::string{make<std::string>()};
  (void)P::char_set{make<char>()};
  (void)P::blank();
  (void)P::space();
}
// ---- skippers -----------------------------------------------------------------------------
#define DRV_SKIP(Ch, ...) \
  (void)clv<__VA_ARGS__>().skip(make<stream_ref<Ch>>()); \
  (void)S::run(clv<__VA_ARGS__>(), make<stream_ref<Ch>>())
#define DRV_SKIPPERS(Ch) \
  DRV_SKIP(Ch, stub_skipper); \
  DRV_SKIP(Ch, S::epsilon); \
  (void)S::basic_char_set<Ch>{make<Ch>(), make<Ch>()}; \
  (void)S::basic_char_set<Ch>{clv<std::initializer_list<Ch>>()}; \
  (void)S::basic_char_set<Ch>{make<P::basic_char_set_container<Ch>>()}; \
  (void)clv<S::basic_char_set<Ch>>().chars(); \
  DRV_SKIP(Ch, S::basic_char_set<Ch>); \
  (void)S::basic_literal<Ch>{make<Ch>()}; \
  DRV_SKIP(Ch, S::basic_literal<Ch>); \
  DRV_SKIP(Ch, S::repetition<stub_skipper>); \
  DRV_SKIP(Ch, S::sequence<stub_skipper, stub_skipper>); \
  DRV_SKIP(Ch, S::repetition<fcppt::reference<stub_skipper const>>); \
  DRV_SKIP(Ch, S::sequence<fcppt::reference<stub_skipper const>, stub_skipper>); \
  DRV_SKIP(Ch, S::sequence<S::repetition<stub_skipper>, S::sequence<stub_skipper, S::epsilon>>); \
  (void)S::make_success<Ch>(); \
  (void)S::make_failure(make<P::error<Ch>>())
DRV(skippers_char) { DRV_SKIPPERS(char); }
DRV(skippers_wchar) { DRV_SKIPPERS(wchar_t); }
DRV(skippers_misc)
{
  (void)S::epsilon{};
  // skipper::basic_space<wchar_t>() does not compile (it builds a char_set from space_set<wchar_t>)
  (void)S::basic_space<char>();
  DRV_SKIP(char, decltype(S::basic_space<char>()));
  (void)S::space();
  (void)S::char_set{make<char>()};
  (void)S::literal{make<char>()};
  (void)S::repetition<stub_skipper>{make<stub_skipper>()};
  (void)S::sequence<stub_skipper, stub_skipper>{make<stub_skipper>(), make<stub_skipper>()};
  (void)*make<stub_skipper>();
  (void)*fcppt::make_cref(clv<stub_skipper>());
  (void)(make<stub_skipper>() >> make<stub_skipper>());
  (void)(fcppt::make_cref(clv<stub_skipper>()) >> fcppt::make_cref(clv<stub_skipper>()));
  (void)(make<stub_skipper>() >> make<S::epsilon>());
  (void)(*make<S::literal>() >> make<S::char_set>());
}
// a real skipper driving combinators over stubs
DRV(skippers_real_over_stubs)
{
  using sp = decltype(S::basic_space<char>());
  using wsp = S::repetition<S::basic_char_set<wchar_t>>;
  DRV_PARSE(char, sp, P::sequence<pa, pb>);
  DRV_PARSE(wchar_t, wsp, P::sequence<pa, pb>);
  DRV_PARSE(char, sp, P::lexeme<pa>);
  DRV_PARSE(wchar_t, wsp, P::lexeme<pa>);
  DRV_PARSE(char, sp, P::separator<pa, pu>);
  DRV_PARSE(char, sp, P::repetition<pa>);
}
// ---- errors, positions, streams -----------------------------------------------------------
#define DRV_ERRORS(Ch) \
  using err = P::error<Ch>; \
  (void)err{make<std::basic_string<Ch>>()}; \
  (void)err{make<std::basic_string<Ch>>(), P::fatal_tag{}}; \
  (void)clv<err>().is_fatal(); \
  (void)clv<err>().get(); \
  (void)lv<err>().get(); \
  (void)(make<err>() + make<err>()); \
  (void)(clv<err>() == clv<err>()); \
  (void)(lv<std::basic_ostream<Ch>>() << clv<err>()); \
  (void)P::get_char(make<stream_ref<Ch>>()); \
  (void)P::get_char_error(make<stream_ref<Ch>>()); \
  (void)P::get_position(make<stream_ref<Ch>>()); \
  P::set_position(make<stream_ref<Ch>>(), make<P::position<Ch>>()); \
  (void)P::detail::expected(make<P::position<Ch>>(), make<std::basic_string<Ch>>(), make<Ch>()); \
  using pos = P::position<Ch>; \
  (void)pos{make<pos::pos_type>(), make<pos::optional_location>()}; \
  (void)clv<pos>().pos(); \
  (void)clv<pos>().location(); \
  (void)(clv<pos>() == clv<pos>()); \
  (void)(lv<std::basic_ostream<Ch>>() << clv<pos>()); \
  (void)(lv<std::basic_ostream<Ch>>() << clv<P::location>()); \
  (void)P::make_success<Ch>(make<RA>()); \
  (void)P::make_success<Ch>(clv<RA>()); \
  P::detail::check_bad(lv<std::basic_istream<Ch>>()); \
  (void)P::detail::exception<Ch>{make<std::basic_string<Ch>>()}; \
  (void)clv<P::detail::exception<Ch>>().what(); \
  (void)P::detail::consume_remaining( \
      make<fcppt::reference<std::basic_istream<Ch>>>(), make<P::result<Ch, RA>>()); \
  P::detail::stream<Ch> st{make<fcppt::reference<std::basic_istream<Ch>>>()}; \
  (void)st.get_char(); \
  (void)st.get_position(); \
  st.set_position(clv<pos>())
DRV(errors_char) { DRV_ERRORS(char); }
DRV(errors_wchar) { DRV_ERRORS(wchar_t); }
DRV(location_misc)
{
  (void)P::location{make<P::line>(), make<P::column>()};
  (void)clv<P::location>().line();
  (void)clv<P::location>().column();
  (void)lv<P::location>().line();
  (void)lv<P::location>().column();
  (void)(clv<P::location>() == clv<P::location>());
}
}
template class fcppt::parse::detail::stream<char>;
template class fcppt::parse::detail::stream<wchar_t>;
namespace drv_parse
{
// ---- entry points -------------------------------------------------------------------------
#define DRV_ENTRY(Ch, Sk) \
  (void)P::phrase_parse(clv<pa>(), lv<P::basic_stream<Ch>>(), clv<Sk>()); \
  (void)P::phrase_parse(clv<pa>(), lv<P::detail::stream<Ch>>(), clv<Sk>()); \
  (void)P::phrase_parse_stream(clv<pa>(), lv<std::basic_istream<Ch>>(), clv<Sk>()); \
  (void)P::phrase_parse_stream(clv<pa>(), lv<std::basic_istringstream<Ch>>(), clv<Sk>()); \
  (void)P::phrase_parse_string(clv<pa>(), make<std::basic_string<Ch>>(), clv<Sk>()); \
  (void)P::phrase_parse_string(clv<P::sequence<pa, pb>>(), make<std::basic_string<Ch>>(), clv<Sk>()); \
  (void)P::phrase_parse_string(clv<P::base<RA, Ch, Sk>>(), make<std::basic_string<Ch>>(), clv<Sk>())
DRV(entry_char_stub) { DRV_ENTRY(char, stub_skipper); }
DRV(entry_char_eps) { DRV_ENTRY(char, eps); }
DRV(entry_wchar_stub) { DRV_ENTRY(wchar_t, stub_skipper); }
DRV(entry_wchar_eps) { DRV_ENTRY(wchar_t, eps); }
#define DRV_ENTRY_NOSKIP(Ch) \
  (void)P::parse(clv<pa>(), lv<P::basic_stream<Ch>>()); \
  (void)P::parse(clv<pa>(), lv<P::detail::stream<Ch>>()); \
  (void)P::parse_string(clv<pa>(), make<std::basic_string<Ch>>()); \
  (void)P::parse_string(clv<P::alternative<pa, pb>>(), make<std::basic_string<Ch>>()); \
  (void)P::parse_string(clv<P::base<RA, Ch, eps>>(), make<std::basic_string<Ch>>()); \
  /* parse_stream has a third template parameter Skipper that is not deducible */ \
  (void)P::parse_stream<Ch, pa, eps>(clv<pa>(), lv<std::basic_istream<Ch>>()); \
  (void)P::parse_stream<Ch, pa, eps>(clv<pa>(), lv<std::basic_istringstream<Ch>>())
DRV(entry_noskip_char) { DRV_ENTRY_NOSKIP(char); }
DRV(entry_noskip_wchar) { DRV_ENTRY_NOSKIP(wchar_t); }
// ---- realistic grammars: leaf + combinator compositions -------------------------------------
DRV(real_char)
{
  auto const ints{*(P::int_<int>{} >> P::literal{','})};
  (void)P::parse_string(ints, make<std::string>());
  (void)P::phrase_parse_string(ints, make<std::string>(), S::space());
  (void)P::phrase_parse_stream(ints, lv<std::istringstream>(), S::space());
  auto const value{
      P::make_lexeme(P::literal{'"'} >> *~P::char_set{'"'} >> P::literal{'"'}) |
      P::float_<double>{} | P::convert_const{P::string{make<std::string>()}, make<bool>()}};
  auto const lst{P::list{P::literal{'['}, fcppt::make_cref(value), P::literal{','}, P::literal{']'}}};
  auto const entry{P::as_struct<SAB>(
      P::construct<RA>(P::int_<int>{}) >> P::make_ignore(+P::blank()) >> !P::literal{':'} >>
      P::construct<RB>(P::make_fatal(P::int_<int>{})))};
  (void)P::phrase_parse_string(
      fcppt::make_cref(lst) >> -P::uint<unsigned>{} >> +P::digits<char>(),
      make<std::string>(),
      S::space());
  (void)P::phrase_parse_string(
      P::named{P::separator{fcppt::make_cref(entry), P::literal{';'}}, make<std::string>()} >>
          P::epsilon{},
      make<std::string>(),
      *S::literal{' '} >> *S::char_set{'\n', '\t'});
  auto const base{P::make_base<char, decltype(S::space())>(P::make_recursive(fcppt::make_cref(lst)))};
  (void)P::phrase_parse_string(*base, make<std::string>(), S::space());
}
DRV(real_wchar)
{
  auto const ints{*(P::int_<int>{} >> P::basic_literal<wchar_t>{L','})};
  (void)P::parse_string(ints, make<std::wstring>());
  (void)P::phrase_parse_string(ints, make<std::wstring>(), *S::basic_char_set<wchar_t>{P::space_set<wchar_t>()});
  (void)P::phrase_parse_stream(ints, lv<std::wistringstream>(), *S::basic_char_set<wchar_t>{P::space_set<wchar_t>()});
  auto const value{
      P::make_lexeme(
          P::basic_literal<wchar_t>{L'"'} >> *~P::basic_char_set<wchar_t>{L'"'} >>
          P::basic_literal<wchar_t>{L'"'}) |
      P::float_<double>{} |
      P::convert_const{P::basic_string<wchar_t>{make<std::wstring>()}, make<bool>()}};
  auto const lst{P::list{
      P::basic_literal<wchar_t>{L'['},
      fcppt::make_cref(value),
      P::basic_literal<wchar_t>{L','},
      P::basic_literal<wchar_t>{L']'}}};
  (void)P::phrase_parse_string(lst, make<std::wstring>(), *S::basic_char_set<wchar_t>{P::space_set<wchar_t>()});
  (void)P::phrase_parse_string(
      P::named{
          P::separator{+P::digits<wchar_t>() >> P::basic_char<wchar_t>{}, P::make_literal(L';')},
          make<std::wstring>()},
      make<std::wstring>(),
      *S::basic_literal<wchar_t>{L' '} >> *S::basic_char_set<wchar_t>{L'\n', L'\t'});
}
}
