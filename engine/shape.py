"""Finite shape domain for intrusive rings (C11 rule RING-SHAPE).

The member functions of fcppt::intrusive::base / list only read and write the prev_/next_ fields of
the hooks they are given and of those hooks' immediate neighbours. Their effect on a ring therefore
depends only on the *shape class* of the rings involved: a ring is a self-loop, a ring of two, or a
ring in which the two neighbours of the hook are distinct nodes (every longer ring behaves like this
one as long as no node beyond the neighbours is touched -- the interpreter reports any access to a
non-neighbour as outside the domain). For two hooks the classes are: different rings, the same ring
with the hooks adjacent (in either order) or not adjacent. The extracted statement trees of the
functions are interpreted over one representative heap per class (abstract interpretation over a
finite domain of shape graphs; no library code is compiled or run) and the resulting rings are
compared with the ring-surgery specification.
"""
from . import facts as F
from . import terms as T

LINKS = ("prev_", "next_")


class ShapeUnsupported(Exception):
    pass


class _Return(Exception):
    def __init__(self, v):
        self.v = v


class Heap:
    def __init__(self):
        self.nodes = {}      # name -> {"prev_": name|None, "next_": name|None}
        self.lists = {}      # name -> head node name
        self.far = set()
        self.touched = set()

    def ring(self, names):
        for i, n in enumerate(names):
            self.nodes.setdefault(n, {})
            self.nodes[n]["next_"] = names[(i + 1) % len(names)]
            self.nodes[n]["prev_"] = names[(i - 1) % len(names)]

    def fresh(self, n):
        self.nodes[n] = {"prev_": None, "next_": None}

    def rings_of(self, live):
        """{frozen cyclic order (tuple starting at its smallest name)} of the live nodes, or a problem string"""
        seen, out = set(), []
        for n in sorted(live):
            if n in seen:
                continue
            cyc, cur = [], n
            while cur not in cyc:
                if cur is None or cur not in self.nodes:
                    return "the link chain from %s reaches %s, which is not a live hook" % (n, cur)
                if cur not in live:
                    return "the ring of %s still contains %s, which is dead or moved away" % (n, cur)
                cyc.append(cur)
                nxt = self.nodes[cur]["next_"]
                if nxt is None or nxt not in self.nodes or self.nodes[nxt]["prev_"] != cur:
                    return "%s.next_ is %s but %s.prev_ is %s (ring invariant broken)" % (
                        cur, nxt, nxt, self.nodes.get(nxt, {}).get("prev_") if nxt in self.nodes else "?")
                cur = nxt
            if cur != n:
                return "following next_ from %s enters a cycle that does not contain it" % n
            seen.update(cyc)
            out.append(canon(cyc))
        return set(out)


def canon(cyc):
    i = cyc.index(min(cyc))
    return tuple(cyc[i:] + cyc[:i])


class Interp:
    def __init__(self, db, heap):
        self.db = db
        self.h = heap
        self.depth = 0

    # values: ("n", name) hook (object, reference or pointer), ("l", name) list object, ("b", bool),
    #         ("lv", node name, field) link field as an lvalue
    def load(self, v):
        if isinstance(v, tuple) and v[0] == "lv":
            self.touch(v[1])
            t = self.h.nodes[v[1]][v[2]]
            if t is None:
                raise ShapeUnsupported("read of the uninitialised link %s.%s" % (v[1], v[2]))
            return ("n", t)
        return v

    def touch(self, name):
        if name in self.h.far:
            raise ShapeUnsupported("a hook beyond the immediate neighbours (%s) is accessed: outside the shape domain" % name)
        self.h.touched.add(name)

    def run(self, fn, this, args):
        self.depth += 1
        if self.depth > 12:
            raise ShapeUnsupported("inlining depth")
        env = {}
        params = fn.get("params", [])
        if len(params) != len(args):
            raise ShapeUnsupported("arity of %s" % fn["qn"])
        for p, a in zip(params, args):
            env[p["id"]] = a
        u = fn["_unit"]
        try:
            for i in fn.get("inits", []) or []:
                fld = i.get("field")
                if fld is None:
                    continue
                init = i.get("init")
                if fld in LINKS:
                    v = self.load(self.eval(u, init, env, this))
                    if v[0] != "n":
                        raise ShapeUnsupported("link initialiser is not a hook")
                    self.touch(this[1])
                    self.h.nodes[this[1]][fld] = v[1]
                elif fld == "head_":
                    head = ("n", self.h.lists[this[1]])
                    self.construct_into(u, init, env, this, head)
            try:
                self.stmt(u, fn.get("body"), env, this)
            except _Return as r:
                return r.v
            return None
        finally:
            self.depth -= 1

    def construct_into(self, u, init, env, this, target):
        n = init
        while n is not None and n.get("k") in ("icast", "cast") and n.get("e") is not None:
            n = n["e"]
        while n is not None and n.get("k") == "initlist" and len(n.get("ch", [])) == 1:
            n = n["ch"][0]
            while n is not None and n.get("k") in ("icast", "cast") and n.get("e") is not None:
                n = n["e"]
        if n is None or n.get("k") not in ("construct", "initlist", "valueinit"):
            raise ShapeUnsupported("initialiser of a hook member is not a constructor call")
        if n.get("k") != "construct":
            fn = self._default_ctor(u, target)
            return self.run(fn, target, [])
        fn = self.db.resolve(u, n.get("callee"))
        if fn is None:
            raise ShapeUnsupported("constructor without a body")
        args = [self.load(self.eval(u, a, env, this)) for a in n.get("args", [])]
        return self.run(fn, target, args)

    def _default_ctor(self, u, target):
        for f in self.db.fns("fcppt::intrusive::base::base"):
            if not f.get("params"):
                return f
        raise ShapeUnsupported("no default constructor of intrusive::base analysed")

    def stmt(self, u, s, env, this):
        if s is None:
            return
        k = s.get("k")
        if k == "compound":
            for c in s.get("ch", []):
                self.stmt(u, c, env, this)
        elif k == "if":
            c = self.load(self.eval(u, s.get("cond"), env, this))
            if c[0] != "b":
                raise ShapeUnsupported("condition is not a Boolean over hooks")
            self.stmt(u, s.get("then") if c[1] else s.get("else"), env, this)
        elif k == "return":
            raise _Return(self.load(self.eval(u, s.get("e"), env, this)) if s.get("e") is not None else None)
        elif k in ("null",):
            return
        elif k == "decl":
            # a local that is not a hook is of no concern to the ring; one that cannot be evaluated becomes opaque and may
            # not be used in a link operation afterwards
            for v in s.get("ch", []):
                if v.get("k") == "var" and "id" in v:
                    try:
                        env[v["id"]] = self.load(self.eval(u, v.get("init"), env, this)) if v.get("init") is not None else ("opaque",)
                    except ShapeUnsupported:
                        env[v["id"]] = ("opaque",)
        elif k in ("for", "while", "do", "range_for", "switch", "try"):
            raise ShapeUnsupported("statement kind %s in a ring operation" % k)
        else:
            self.eval(u, s, env, this)

    def eval(self, u, n, env, this):
        if n is None:
            raise ShapeUnsupported("missing expression")
        k = n.get("k")
        if k in ("icast", "cast"):
            return self.eval(u, n.get("e"), env, this)
        if k == "initlist" and len(n.get("ch", [])) == 1:
            return self.eval(u, n["ch"][0], env, this)
        if k == "this":
            return this
        if k == "ref":
            if n.get("id") in env:
                return env[n["id"]]
            raise ShapeUnsupported("reference to %s" % n.get("name"))
        if k == "member":
            b = self.load(self.eval(u, n.get("base"), env, this))
            name = n.get("name")
            if b[0] == "n" and name in LINKS:
                return ("lv", b[1], name)
            if b[0] == "l" and name == "head_":
                return ("n", self.h.lists[b[1]])
            raise ShapeUnsupported("member %s of %s" % (name, b[0]))
        if k == "unop":
            op = n.get("op")
            if op in ("&", "*"):
                v = self.eval(u, n.get("e"), env, this)
                return self.load(v) if v[0] == "lv" and op == "*" else (v if v[0] != "lv" else self.load(v))
            if op == "!":
                v = self.load(self.eval(u, n.get("e"), env, this))
                if v[0] != "b":
                    raise ShapeUnsupported("! of a non-Boolean")
                return ("b", not v[1])
            raise ShapeUnsupported("unary %s" % op)
        if k == "binop" and n.get("op") in ("&&", "||"):
            l = self.load(self.eval(u, n["l"], env, this))
            if l[0] != "b":
                raise ShapeUnsupported("operand of %s is not a Boolean over hooks" % n["op"])
            if (n["op"] == "&&") != l[1]:
                return l            # short circuit
            r = self.load(self.eval(u, n["r"], env, this))
            if r[0] != "b":
                raise ShapeUnsupported("operand of %s is not a Boolean over hooks" % n["op"])
            return r
        if k == "binop" and n.get("op") in ("==", "!="):
            l = self.load(self.eval(u, n["l"], env, this))
            r = self.load(self.eval(u, n["r"], env, this))
            return ("b", (l == r) == (n["op"] == "=="))
        if k == "assign":
            tgt = self.eval(u, n.get("l"), env, this)
            v = self.load(self.eval(u, n.get("r"), env, this))
            if tgt[0] != "lv" or v[0] != "n":
                raise ShapeUnsupported("assignment that is not a link write")
            self.touch(tgt[1])
            self.h.nodes[tgt[1]][tgt[2]] = v[1]
            return tgt
        if k == "cond":
            c = self.load(self.eval(u, n.get("c_"), env, this))
            return self.eval(u, n.get("then") if c[1] else n.get("else"), env, this)
        if k == "construct":
            args = n.get("args", [])
            if len(args) == 1 and ("iterator" in (n.get("cls") or "") or n.get("ctor") in ("copy", "move") and "intrusive::base" not in (n.get("cls") or "")):
                return self.load(self.eval(u, args[0], env, this))
            raise ShapeUnsupported("construction of %s inside an expression" % n.get("cls"))
        if k == "call":
            qn = T.callee_qn(u, n) or ""
            args = n.get("args", [])
            if qn in ("std::move", "std::forward", "std::addressof", "std::as_const") and args:
                v = self.eval(u, args[0], env, this)
                return self.load(v) if v[0] == "lv" else v
            if n.get("opcall") in ("==", "!="):
                ops = ([n["recv"]] if n.get("recv") is not None else []) + list(args)
                if len(ops) == 2:
                    l = self.load(self.eval(u, ops[0], env, this))
                    r = self.load(self.eval(u, ops[1], env, this))
                    return ("b", (l == r) == (n["opcall"] == "=="))
            fn = self.db.resolve(u, n.get("callee"))
            if fn is not None and fn["qn"].startswith("fcppt::intrusive::") and fn.get("body") is not None:
                recv = self.load(self.eval(u, n["recv"], env, this)) if n.get("recv") is not None else None
                r = self.run(fn, recv, [self.load(self.eval(u, a, env, this)) for a in args])
                if r is None and F.strip_targs(fn["qn"]).endswith("::operator="):
                    return recv
                return r
            raise ShapeUnsupported("call of %s" % qn)
        if k == "lit" and n.get("nullptr"):
            raise ShapeUnsupported("null link")
        raise ShapeUnsupported("expression kind %s" % k)


# ---------------------------------------------------------------------------------------------
# scenarios and the ring-surgery specification

def ring_shapes(x, tag):
    """representative rings containing hook x: self-loop, ring of two, ring with distinct neighbours (+ far nodes)"""
    return [[x], [x, tag + "1"], [x, tag + "1", tag + "F", tag + "2"]]


def spec_remove(rings, x):
    out = []
    for r in rings:
        if x in r:
            r2 = [y for y in r if y != x]
            if r2:
                out.append(r2)
        else:
            out.append(list(r))
    return out


def spec_replace(rings, old, new):
    return [[new if y == old else y for y in r] for r in rings]


def canon_set(rings):
    return set(canon(list(r)) for r in rings)
