"""C15 Round-trips of textual and binary encodings (DESIGN.md §6 C15): writer / reader AGREEMENT.

 RW-SIB  io::read and io::write use the same byte count sizeof(Type) and endianness::convert(., caller's format);
         read converts after reading and yields nothing when the stream read fails
 CONV    endianness::convert is identity for native and swap otherwise; swap reverses exactly sizeof(Type) bytes of its
         own copy; reverse_mem swaps data[i] with data[len-1-i] for i < len/2
 CVT     impl::codecvt result table: ok => converted buffer (unless an incomplete sequence is pending in the state),
         noconv => input, error => nothing, partial => grow and continue or nothing -- never a success on `partial`
 ENUM    from_string searches the array returned by names<Enum>(), which is built from to_string of EVERY
         enumerator (array_init over the whole enum); input/output pair through from_string/to_string
 VEC-IO  one_dimensional_output and one_dimensional_input use the same token sequence '(' element (',' unless last) ')'
         and the same per-index element access
 EXTR    extract_from_string_locale returns a value only under iss.eof() (consumed completely); extract and output imbue
         the locale they are given
Declined: that iostream formatting, std::codecvt facets and locales actually invert each other; UTF-8 coverage; floats.
"""
import re

from engine import facts as F
from engine import load
from engine import lrules as L
from engine import sx
from engine import terms as T

LEVEL = "other"


def first(db, qn):
    fns = db.fns(qn)
    return fns[0] if fns else None


def char_lits(fn):
    return [n["char"] for n in F.walk(fn.get("body")) if n.get("k") == "lit" and "char" in n]


class _TraceUnknown(Exception):
    pass


def token_trace(db, fn):
    """the sequence of delimiter characters and element accesses a vector / dim stream function goes through, in evaluation
    order, as a list of 1-character strings and ("E", index) entries. Calls are followed, not pattern-matched:
    algorithm::loop over int_range_count<N> runs the instantiation of the generic lambda for Index = 0 .. N-1 in order;
    a call of a library function defined in the analysed units (if_not_last_index) is replaced by its instantiated body with
    the function-object parameter bound to the argument; a call of a (named or bound) lambda by that lambda's body;
    `if constexpr` takes the branch its constant condition selects. Any other branching raises _TraceUnknown."""
    def lam_of(u, owner, n, env):
        n = T.unwrap(u, n)
        for _ in range(4):
            if n is None:
                return None
            if n.get("k") == "lambda":
                return n
            if n.get("k") in ("construct",) and len(n.get("args", [])) == 1:
                n = T.unwrap(u, n["args"][0])
                continue
            if n.get("k") in ("cast", "icast") and n.get("e") is not None:
                n = T.unwrap(u, n["e"])
                continue
            if n.get("k") == "ref" and n.get("id") in env:
                return env[n["id"]]
            if n.get("k") == "ref" and n.get("dk") == "local":
                inits = [v for v in F.walk(owner.get("body"), into_lambdas=True) if v.get("k") == "var" and v.get("id") == n.get("id") and v.get("init") is not None]
                if len(inits) != 1:
                    return None
                n = T.unwrap(u, inits[0]["init"])
                continue
            return None
        return None

    def go(u, owner, n, env, out, depth):
        if n is None:
            return
        if depth > 12:
            raise _TraceUnknown("call depth")
        if isinstance(n, list):
            for x in n:
                go(u, owner, x, env, out, depth)
            return
        k = n.get("k")
        if k == "lit" and "char" in n:
            out.append(chr(n["char"]))
            return
        if k == "lambda":
            return     # a lambda expression by itself emits nothing; its body counts where it is called
        if k == "if":
            c = (n.get("cond") or {}).get("c")
            if c is None:
                raise _TraceUnknown("run-time branch at %s" % u.loc(n["loc"]))
            go(u, owner, n.get("then") if str(c) not in ("0", "false") else n.get("else"), env, out, depth)
            return
        if k in ("for", "while", "do", "range_for", "switch", "try", "cond"):
            raise _TraceUnknown("%s statement at %s" % (k, u.loc(n["loc"])))
        if k == "call":
            qn = T.callee_qn(u, n) or ""
            if qn == "fcppt::math::detail::checked_access":
                d = T.callee_decl(u, n) or {}
                f2 = u.fn_by_id.get(d.get("id"))
                ta = (f2 or {}).get("targs") or d.get("targs") or ["?"]
                out.append(("E", str(ta[0]).rstrip("uUlL")))
                return
            if qn == "fcppt::algorithm::loop" and len(n.get("args", [])) == 2:
                lam = lam_of(u, owner, n["args"][1], env)
                if lam is None:
                    raise _TraceUnknown("loop body is not a visible lambda at %s" % u.loc(n["loc"]))
                ops = lam.get("ops", [])
                try:
                    ops = sorted(ops, key=lambda o: int(str((o.get("targs") or ["x"])[0]).rstrip("uUlL")))
                except ValueError:
                    raise _TraceUnknown("loop body instantiations without an index at %s" % u.loc(n["loc"]))
                idx = [int(str(o["targs"][0]).rstrip("uUlL")) for o in ops]
                if idx != list(range(len(idx))) or not idx:
                    raise _TraceUnknown("loop body instantiated for indices %s at %s" % (idx, u.loc(n["loc"])))
                for o in ops:
                    go(u, owner, o.get("body"), env, out, depth + 1)
                return
            recv = T.unwrap(u, n.get("recv")) if n.get("recv") is not None else None
            if n.get("opcall") == "()" and recv is not None:
                lam = lam_of(u, owner, recv, env)
                if lam is not None and len(lam.get("ops", [])) == 1:
                    go(u, owner, n.get("args", []), env, out, depth)
                    go(u, owner, lam["ops"][0].get("body"), env, out, depth + 1)
                    return
                raise _TraceUnknown("call of an unknown function object at %s" % u.loc(n["loc"]))
            d = T.callee_decl(u, n) or {}
            f2 = u.fn_by_id.get(d.get("id")) if d.get("id") is not None else None
            if f2 is not None and f2.get("body") is not None and qn.startswith("fcppt::math::detail::"):
                env2 = dict(env)
                for (p, a) in zip(f2.get("params", []), n.get("args", [])):
                    la = lam_of(u, owner, a, env)
                    if la is not None:
                        env2[p["id"]] = la
                    else:
                        go(u, owner, a, env, out, depth)
                go(u, f2, f2.get("body"), env2, out, depth + 1)
                return
            go(u, owner, n.get("recv"), env, out, depth)
            go(u, owner, n.get("args", []), env, out, depth)
            return
        for key in F.CHILD_KEYS:
            v = n.get(key)
            if v is not None and not isinstance(v, (str, int, bool)):
                go(u, owner, v, env, out, depth)
    out = []
    go(fn["_unit"], fn, fn.get("body"), {}, out, 0)
    return out


def main(rep, tier, only):
    db = load.load(tier, lib=True, drivers=["drv_integers"], lib_filter=lambda f: f.startswith("libs/core/"))
    rep.extra.update(db.stats())
    rep.rule("RW-SIB", "io::read / io::write agree on byte count (sizeof(Type)) and byte-order conversion with the caller's format", floor=4)
    rep.rule("CONV", "endianness::convert = native ? identity : swap; swap reverses sizeof(Type) bytes of its copy; reverse_mem is a full reversal", floor=3)
    rep.rule("CVT", "impl::codecvt never reports success on `partial`; ok => buffer only with an initial conversion state (mbsinit), noconv => input, error => nothing", floor=2)
    rep.rule("ENUM", "from_string searches names<Enum>(), names is to_string over every enumerator", floor=2)
    rep.rule("VEC-IO", "vector/dim output and input use the same token sequence and element access", floor=2)
    rep.rule("EXTR", "extract_from_string_locale yields a value only when the input was consumed completely; the given locale is imbued", floor=2)
    # ---------------- RW-SIB
    seen = set()
    for rd in db.fns("fcppt::io::read"):
        ty = (rd.get("targs") or ["?"])[0]
        if ty in seen:
            continue
        seen.add(ty)
        wrs = [w for w in db.fns("fcppt::io::write") if (w.get("targs") or ["?"])[0] == ty]
        if not wrs:
            continue
        wr = wrs[0]
        ur, uw = rd["_unit"], wr["_unit"]

        def count_of(u, fn, stream_method):
            for (n, d, q) in L.calls_in(u, fn.get("body")):
                if q.endswith("::" + stream_method) and q.startswith("std::"):
                    sz = [m for a in n.get("args", []) for m in T.walk_through_locals(u, fn, a) if m.get("k") == "sizeof"]
                    return (u.ty(sz[0].get("arg_t")) if sz else None, T.show(T.norm(u, n.get("recv"))))
            return (None, None)
        rc, rs = count_of(ur, rd, "read")
        wc, ws = count_of(uw, wr, "write")

        def read_buffer(u, fn):
            """the local whose storage is handed to stream.read"""
            for (n, d, q) in L.calls_in(u, fn.get("body")):
                if q.endswith("::read") and q.startswith("std::") and n.get("args"):
                    for m in F.walk(n["args"][0]):
                        if m.get("k") == "ref" and m.get("dk") == "local":
                            return m.get("name")
            return None

        def conv_of(u, fn):
            for (n, d, q) in L.calls_in(u, fn.get("body")):
                if q == "fcppt::endianness::convert":
                    return [T.show(T.norm(u, a)) for a in n.get("args", [])]
            return None
        rcv, wcv = conv_of(ur, rd), conv_of(uw, wr)
        why = None
        if rc is None or wc is None or rc != wc or rc.replace("const ", "") != ty.replace("const ", ""):
            why = "byte counts differ: read uses sizeof(%s), write uses sizeof(%s), value type %s" % (rc, wc, ty)
        elif rcv is None or wcv is None:
            why = "one side does not apply endianness::convert (read: %s, write: %s)" % (rcv, wcv)
        elif rcv[1] != "r_a1" or wcv[1] != "r_a2":      # read(stream, format) / write(stream, value, format)
            why = "convert is not given the caller's format (read: %s, write: %s)" % (rcv, wcv)
        elif not read_buffer(ur, rd) or rcv[0] != read_buffer(ur, rd) or wcv[0] != "r_a1":
            why = "convert is applied to %s / %s instead of the read result / the written value" % (rcv[0], wcv[0])
        elif rs != "r_a0" or ws != "r_a0":
            why = "not the caller's stream"
        key = "io::read/write<%s>" % ty
        (rep.fail if why else rep.ok)("RW-SIB", key, F.primary_site(rd), F.describe(rd), **({"why": why} if why else {"how": "sizeof(%s);convert(.,_format)" % ty}))
    fn = first(db, "fcppt::io::read")
    if fn is not None:
        # decision table of io::read, whichever way it is written: the stream's state after read() decides; failure => nothing,
        # success => the converted buffer that was read into
        cfg = sx.Config(inline_prefixes=("fcppt::cond", "fcppt::cast::"), pure=("fcppt::endianness::convert",))
        u = fn["_unit"]
        why = None
        rows = set()
        try:
            for p in sx.Interp(db, cfg).paths(fn, limit=16):
                if p.outcome[0] != "return":
                    continue
                rd_ = [i_ for i_, e in enumerate(p.events, 1) if e[0].split("<")[0] in ("std::basic_istream::read", "std::istream::read")]
                if len(rd_) != 1 or sx.show(p.events[rd_[0] - 1][1][0]) != fn["params"][0]["name"]:
                    why = "the caller's stream is not read exactly once"
                    break
                buf = p.events[rd_[0] - 1][1][1]
                success = None
                for d, v in p.decisions:
                    t, neg = d, False
                    while isinstance(t, tuple) and t and t[0] == "not":
                        t, neg = t[1], not neg
                    if isinstance(t, tuple) and t and t[0] == "ev":
                        e = p.events[t[1] - 1]
                        nm = e[0].split("<")[0].split("::")[-1]
                        if len(e[1]) == 1 and e[1][0] == ("ev", rd_[0], "read") or (len(e[1]) == 1 and isinstance(e[1][0], tuple) and e[1][0][:2] == ("ev", rd_[0])):
                            if nm == "operator bool":
                                success = (v != neg)
                            elif nm in ("operator!", "fail"):
                                success = not (v != neg)
                            elif nm == "good":
                                success = (v != neg)
                if success is None:
                    why = "the result is not decided by the state of the stream after the read"
                    break
                rows.add(success)
                out = sx.show(p.outcome[1]).replace(" ", "")
                bufname = sx.show(buf[1]) if isinstance(buf, tuple) and buf and buf[0] == "addr" else sx.show(buf)
                if not success and not out.endswith(":none"):
                    why = "the stream read failed but the result is %s" % out
                elif success and out != "optional::object{convert(%s,%s)}:some" % (bufname, fn["params"][1]["name"]):
                    why = "the stream read succeeded but the result is %s, expected convert(buffer read into, caller's format)" % out
                if why:
                    break
            if not why and rows != {True, False}:
                why = "success / failure of the stream read are not both possible"
        except sx.Unsupported as e:
            rep.broken("C15 RW-SIB io::read|failure: %s" % e)
            why = "skip"
        ok = why is None
        if why != "skip":
            (rep.ok if ok else rep.fail)("RW-SIB", "io::read|failure", F.primary_site(fn), F.describe(fn), **({"how": "stream failure => nothing"} if ok else {"why": why}))
    # ---------------- CONV
    fn = first(db, "fcppt::endianness::convert")
    if fn is None:
        rep.broken("C15: endianness::convert not instantiated")
    else:
        u = fn["_unit"]
        t = T.return_term(u, fn)
        ok = isinstance(t, tuple) and t[0] == "cond" and T.show(t[1]).replace(" ", "") in ("(r_a1==std::endian::native)", "(std::endian::native==r_a1)") \
            and T.show(t[2]) == "r_a0" and T.show(t[3]) == "swap(r_a0)"
        (rep.ok if ok else rep.fail)("CONV", "endianness::convert", F.primary_site(fn), F.describe(fn), **({"how": "native ? id : swap"} if ok else {"why": "convert is %s" % (T.show(t) if t else "?")}))
    seen_swap = set()
    for fn in db.fns("fcppt::endianness::swap"):
        # every instantiation: a size-specific fast path (`if constexpr (sizeof(Type) == 2)`) exists in some of them only
        tkey = tuple(fn.get("targs") or [])
        if tkey in seen_swap:
            continue
        seen_swap.add(tkey)
        u = fn["_unit"]
        calls = [(n, q) for (n, d, q) in L.calls_in(u, fn.get("body")) if q == "fcppt::endianness::reverse_mem"]
        ok = False
        why = "swap does not call reverse_mem exactly once"
        if len(calls) == 1:
            n = calls[0][0]
            a0 = T.show(T.snorm(u, fn, n["args"][0]))      # a named byte pointer stands for its initialiser
            sz = [m for m in T.walk_through_locals(u, fn, n["args"][1]) if m.get("k") == "sizeof"]
            ty = (fn.get("targs") or ["?"])[0]
            rets = [T.show(T.norm(u, r["e"])) for r in F.walk(fn.get("body")) if r.get("k") == "return"]
            ok = "r_a0" in a0 and sz and u.ty(sz[0].get("arg_t")) == ty and rets == ["r_a0"] and fn["params"][0]["ref"] == "val"
            why = "swap reverses %s with length sizeof(%s) and returns %s" % (a0, u.ty(sz[0].get("arg_t")) if sz else "?", rets)
        (rep.ok if ok else rep.fail)("CONV", "endianness::swap<%s>" % ",".join(tkey), F.primary_site(fn), F.describe(fn), **({"how": "reverse_mem(&copy, sizeof(Type))"} if ok else {"why": why}))
    fn = first(db, "fcppt::endianness::reverse_mem")
    if fn is None:
        rep.broken("C15: reverse_mem not analysed (library unit missing)")
    else:
        u = fn["_unit"]
        loops = [n for n in F.walk(fn.get("body")) if n.get("k") == "range_for"]
        ok = False
        why = "no loop over len/2"
        revs = [n for (n, d, q) in L.calls_in(u, fn.get("body")) if q == "std::reverse"]
        if not loops and len(revs) == 1 and len(revs[0].get("args", [])) == 2:
            a = [T.show(T.snorm(u, fn, x)).replace(" ", "") for x in revs[0]["args"]]
            ok = a == ["r_a0", "(r_a0+r_a1)"]
            why = "std::reverse(%s, %s) is not the reversal of exactly [data, data + len)" % (a[0], a[1])
        if loops:
            rng = T.show(T.norm(u, loops[0]["range"]))
            sw = [n for (n, d, q) in L.calls_in(u, loops[0]["body"]) if q == "std::swap"]
            if sw:
                a = [T.show(T.norm(u, x)).replace(" ", "") for x in sw[0]["args"]]
                iv = (loops[0].get("var") or {}).get("name", "?")
                ok = "(r_a1/2)" in rng.replace(" ", "") and a[0] == "(r_a0[]%s)" % iv and a[1] in ("(r_a0[]((r_a1-%s)-1))" % iv, "(r_a0[](r_a1-%s-1))" % iv)
                why = "range %s, swap(%s, %s)" % (rng, a[0], a[1])
        (rep.ok if ok else rep.fail)("CONV", "endianness::reverse_mem", F.primary_site(fn), F.describe(fn), **({"how": "swap(data[i], data[len-1-i]) for i < len/2"} if ok else {"why": why}))
    # ---------------- CVT
    seen = set()
    for fn in db.fns("fcppt::impl::codecvt"):
        k = tuple((fn.get("targs") or [])[:2])
        if k in seen:
            continue
        seen.add(k)
        u = fn["_unit"]
        sw = [n for n in F.walk(fn.get("body"), into_lambdas=False) if n.get("k") == "switch"]
        key = "impl::codecvt<%s>" % ",".join(k)
        if len(sw) != 1:
            rep.fail("CVT", key, F.primary_site(fn), F.describe(fn)[:140], why="no switch over the codecvt result")
            continue
        body = sw[0].get("body")
        arms = {}
        cur = None
        for c in body.get("ch", []):
            x = c
            if x.get("k") == "case":
                lab = T.unwrap(u, x.get("value"))
                name = None
                for m in F.walk(x.get("value")):
                    if m.get("k") == "ref" and m.get("dk") == "enumerator":
                        name = m.get("name")
                cur = name
                arms[cur] = [x.get("sub")]
            elif cur is not None:
                arms[cur].append(c)
        why = None
        BUF = next((v.get("name") for v in F.walk(fn.get("body"), into_lambdas=False) if v.get("k") == "var" and "buffer::object" in (u.ty(v.get("t")) or "")), "buf")

        def returns(items):
            out = []
            for it in items:
                for r in F.walk(it, into_lambdas=False):
                    if r.get("k") == "return":
                        out.append(T.show(T.norm(u, r["e"])))
            return out
        need = {"noconv", "error", "partial", "ok"}
        if set(arms) != need:
            why = "switch arms are %s, expected %s" % (sorted(arms), sorted(need))
        else:
            rp = returns(arms["partial"])
            if any(BUF in r or "r_a0" in r for r in rp):
                why = "the `partial` arm returns a converted string (%s): input that was not converted completely is reported as success" % rp
            grows = any(q.endswith("::resize_write_area") for it in arms["partial"] for (_, _, q) in L.calls_in(u, it))
            cont = any(n.get("k") == "continue" for it in arms["partial"] for n in F.walk(it))
            if not why and not (grows and cont):
                why = "the `partial` arm does not grow the output area and continue"
            if not why:
                # giving up on `partial` is right only when nothing was written ALTHOUGH there was room for any character
                ifs = [x for it in arms["partial"] for x in F.walk(it, into_lambdas=False) if x.get("k") == "if"]
                guarded = False
                for x in ifs:
                    gives_up = any(r.get("k") == "return" for r in F.walk(x.get("then"), into_lambdas=False))
                    if not gives_up:
                        continue
                    c = T.snorm(u, fn, x.get("cond"))
                    def conj(t):
                        return conj(t[2]) + conj(t[3]) if isinstance(t, tuple) and t and t[0] == "b" and t[1] == "&&" else [T.show(t).replace(" ", "")]
                    parts = conj(c)
                    top_or = isinstance(c, tuple) and c and c[0] == "b" and c[1] == "||"
                    has_written = any(re.search(r"==0\)?$", x_) and "write_data()" in x_ or x_.endswith("==0)") for x_ in parts)
                    has_room = any(".write_size()>=" in x_ or "<=%s.write_size()" % BUF in x_ for x_ in parts)
                    guarded = (not top_or) and has_written and has_room
                    if not guarded:
                        why = ("the `partial` arm gives up under `%s`: it may only do so when nothing was written AND the write area had room for any "
                               "single character (otherwise a valid string is reported as unconvertible / an unconvertible one loops)" % T.show(c))
                if not why and not ifs:
                    pass
            re_ = returns(arms["error"])
            if not why and any(BUF in r or "r_a0" in r for r in re_):
                why = "the `error` arm returns a string"
            rn = returns(arms["noconv"])
            if not why and not any("r_a0" in r for r in rn):
                why = "the `noconv` arm does not return the input"
            ro = returns(arms["ok"])
            if not why and not any(BUF in r for r in ro):
                why = "the `ok` arm does not return the converted buffer"
            if not why:
                # the count handed to buffer::written() is measured from the START OF THE WRITE AREA the facet wrote into
                wcalls = [n for (n, d, q) in L.calls_in(u, fn.get("body")) if q.endswith("buffer::object::written")]
                if len(wcalls) != 1:
                    why = "buffer::written is called %d times per conversion round (expected once)" % len(wcalls)
                else:
                    at = T.show(T.snorm(u, fn, wcalls[0]["args"][0])).replace(" ", "")
                    ok_w = ("distance(%s.write_data()," % BUF) in at or ("-%s.write_data())" % BUF) in at
                    if not ok_w or ".read_data()" in at or ".begin()" in at:
                        why = ("the number of elements reported to buffer::written() is `%s`: it must be the distance from %s.write_data() to the "
                               "facet's output position (measuring from anywhere else moves the read end past the converted data)" % (at, BUF))
            if not why:
                # libstdc++ keeps an incomplete trailing multi-byte sequence in the conversion state and reports `ok`:
                # the buffer is a success only if std::mbsinit(&state) holds for the state handed to the facet
                guarded = False
                for it in arms["ok"]:
                    for c in F.walk(it, into_lambdas=False):
                        if c.get("k") != "cond":
                            continue
                        ct = T.show(T.norm(u, c.get("c_")))
                        tt, et = T.show(T.norm(u, c.get("then"))), T.show(T.norm(u, c.get("else")))
                        m = re.search(r"mbsinit\(&(\w+)\)", ct)
                        if not m:
                            continue
                        pos = ("!= 0" in ct or "!=0" in ct.replace(" ", "")) and not ct.strip().startswith("!")
                        neg = "== 0" in ct or ct.strip().startswith("!")
                        if (pos and BUF in tt and BUF not in et) or (neg and BUF in et and BUF not in tt):
                            guarded = m.group(1)
                for it in arms["ok"]:
                    for st in F.walk(it, into_lambdas=False):
                        if st.get("k") == "if":
                            ct = T.show(T.norm(u, st.get("cond")))
                            if "mbsinit(&" in ct:
                                guarded = guarded or re.search(r"mbsinit\(&(\w+)\)", ct).group(1)
                if not guarded:
                    why = ("the `ok` arm returns the buffer without checking std::mbsinit(&state): an input that ends inside a multi-byte "
                           "sequence (swallowed into the conversion state) is reported as a successful conversion of its prefix")
        # the empty input is a success by itself
        (rep.fail if why else rep.ok)("CVT", key, F.primary_site(fn), F.describe(fn)[:140], **({"why": why} if why else {"how": "ok=>buffer;noconv=>input;error=>nothing;partial=>grow|nothing"}))
    # ---------------- ENUM
    seen = set()
    for fn in db.functions:
        if F.fn_name(fn) != "fcppt::enum_::from_string_impl::get":
            continue
        u = fn["_unit"]
        if F.primary_site(fn) in seen:
            continue
        seen.add(F.primary_site(fn))
        rets = [T.show(T.norm(u, r["e"])) for r in F.walk(fn.get("body")) if r.get("k") == "return"]
        ok = rets and rets[0].replace(" ", "") == "index_of_array(names(),r_a0)"
        (rep.ok if ok else rep.fail)("ENUM", "from_string_impl::get", F.primary_site(fn), F.describe(fn)[:140], **({"how": "index_of_array(names<Enum>(), string)"} if ok else {"why": "from_string is %s" % rets}))
    seen = set()
    for fn in db.fns("fcppt::enum_::names"):
        u = fn["_unit"]
        en = (fn.get("targs") or ["?"])[0]
        if en in seen:
            continue
        seen.add(en)
        calls = [(n, q) for (n, d, q) in L.calls_in(u, fn.get("body"), into_lambdas=False)]
        ai = [n for n, q in calls if q == "fcppt::enum_::array_init"]
        ok = False
        why = "names is not array_init over the enum"
        if len(ai) == 1:
            lam = T.resolve_lambda(u, fn, ai[0]["args"][0])     # the lambda itself or the named local that holds it
            ops = lam.get("ops", []) if lam is not None and lam.get("k") == "lambda" else []
            size = None
            for uu in db.units:
                for e in uu.enums:
                    if e["qn"] == en:
                        size = int({x["name"]: x["value"] for x in e["enumerators"]}.get("fcppt_maximum", "-1")) + 1
            bodies_ok = all(any(q == "fcppt::enum_::to_string" for (_, _, q) in L.calls_in(u, op.get("body"))) for op in ops)
            idx = sorted((op.get("targs") or ["?"])[-1] for op in ops)
            ok = bool(ops) and bodies_ok and (size is None or len(ops) == size)
            why = "names<%s> covers %d of %s enumerators with to_string" % (en, len(ops), size)
        (rep.ok if ok else rep.fail)("ENUM", "names<%s>" % en.split("::")[-1], F.primary_site(fn), F.describe(fn)[:140], **({"how": why} if ok else {"why": why}))
    # ---------------- VEC-IO
    outs = db.fns("fcppt::math::detail::one_dimensional_output")
    ins = db.fns("fcppt::math::detail::one_dimensional_input")
    if not outs or not ins:
        rep.broken("C15: one_dimensional_output / input not instantiated")
    else:
        o, i = outs[0], ins[0]
        uo, ui = o["_unit"], i["_unit"]
        why = None
        try:
            to, ti = token_trace(db, o), token_trace(db, i)
        except _TraceUnknown as e:
            rep.broken("C15 VEC-IO: the token sequence of one_dimensional_output / input cannot be followed: %s" % e)
            to = ti = None
        if to is not None:
            n_el = len([x for x in to if isinstance(x, tuple)])
            spec = ["("]
            for k in range(n_el):
                spec.append(("E", str(k)))
                if k != n_el - 1:
                    spec.append(",")
            spec.append(")")
            sh = lambda tr: " ".join(x if isinstance(x, str) else "e%s" % x[1] for x in tr)
            if to != ti:
                why = "token sequences differ: output writes %s, input expects %s" % (sh(to), sh(ti))
            elif n_el < 2 or to != spec:
                why = "token sequence is not '(' e0 ',' e1 ... ')': %s" % sh(to)
            (rep.fail if why else rep.ok)("VEC-IO", "one_dimensional_output/input", F.primary_site(o), F.describe(o)[:140], **({"why": why} if why else {"how": "trace %s" % sh(to)}))
        exp = [n for (n, d, q) in L.calls_in(ui, i.get("body")) if q == "fcppt::io::expect"]
        # every delimiter literal of the input side is the argument of an io::expect call (however many times the code spells it)
        under = set()
        for n in exp:
            for m in F.walk(n.get("args", [])):
                if m.get("k") == "lit" and "char" in m:
                    under.add(id(m))
        lits = [m for m in F.walk(i.get("body")) if m.get("k") == "lit" and "char" in m]
        loose = [m for m in lits if id(m) not in under]
        ok = bool(lits) and not loose and {chr(m["char"]) for m in lits} == {"(", ",", ")"}
        (rep.ok if ok else rep.fail)("VEC-IO", "one_dimensional_input|expect", F.primary_site(i), F.describe(i)[:140],
                                     **({"how": "all %d delimiter literals are io::expect arguments" % len(lits)} if ok else {"why": "input does not check all three delimiters with io::expect (%d of %d delimiter literals are not expect arguments)" % (len(loose), len(lits))}))
    # ---------------- ENUM-IO: stream output keeps the LENGTH of the name (a string_view is not NUL-terminated)
    seen = set()
    for fn in db.fns("fcppt::enum_::output"):
        u = fn["_unit"]
        if F.primary_site(fn) in seen:
            continue
        seen.add(F.primary_site(fn))
        rets = [r for r in F.walk(fn.get("body"), into_lambdas=False) if r.get("k") == "return"]
        t = T.show(T.snorm(u, fn, rets[0]["e"])) if rets else ""
        raw = [n for n in F.walk(fn.get("body")) if n.get("k") == "call" and (T.callee_qn(u, n) or "").endswith("basic_string_view::data")]
        # what is inserted into the stream derives from to_string(value), directly or through named locals
        # (`std::string name{to_string(v)}; stream << widen_string(std::move(name)); return stream;`)
        derived = set()
        for v in F.walk(fn.get("body"), into_lambdas=False):
            if v.get("k") == "var" and v.get("init") is not None:
                if any((m.get("k") == "call" and (T.callee_qn(u, m) or "") == "fcppt::enum_::to_string") or (m.get("k") == "ref" and m.get("id") in derived) for m in F.walk(v["init"])):
                    derived.add(v["id"])
        ins_ok = False
        for n in F.walk(fn.get("body"), into_lambdas=False):
            if n.get("k") == "call" and n.get("opcall") == "<<":
                ops = ([n["recv"]] if n.get("recv") is not None else []) + list(n.get("args", []))
                if len(ops) == 2 and T.show(T.snorm(u, fn, ops[0])).startswith("r_a0"):
                    if any((m.get("k") == "call" and (T.callee_qn(u, m) or "") == "fcppt::enum_::to_string") or (m.get("k") == "ref" and m.get("id") in derived) for m in F.walk(ops[1])):
                        ins_ok = True
        ok = ins_ok and not raw and len(rets) == 1 and (t == "r_a0" or t.startswith("operator<<(r_a0") or t.startswith("(r_a0 <<") or "to_string(" in t)
        (rep.ok if ok else rep.fail)("ENUM", "enum_::output", F.primary_site(fn), F.describe(fn)[:140],
                                     **({"how": "streams the whole name returned by to_string"} if ok else
                                        {"why": "output streams %s: a raw data() pointer drops the view's length (names need not be NUL-terminated), so output and input no longer agree" % t}))
        break
    # ---------------- CVT (callers): narrow_locale / widen_locale hand the WHOLE string to impl::codecvt with the caller's locale and
    # the matching direction; every value they return comes from that call (no shortcut that bypasses the facet)
    for nm, direction in (("fcppt::narrow_locale", "out"), ("fcppt::widen_locale", "in")):
        for fn in db.fns(nm)[:1]:
            u = fn["_unit"]
            why = None
            rets = [r for r in F.walk(fn.get("body"), into_lambdas=True) if r.get("k") == "return" and r.get("e") is not None
                    and F.top_function(fn) is fn]
            top_rets = [r for r in F.walk(fn.get("body"), into_lambdas=False) if r.get("k") == "return" and r.get("e") is not None]
            if not top_rets:
                why = "no value is returned"
            is_cvt = lambda m: m.get("k") == "call" and (T.callee_qn(u, m) or "") == "fcppt::impl::codecvt"
            all_calls = [m for m in F.walk(fn.get("body"), into_lambdas=True) if is_cvt(m)]
            derived = set()      # locals that hold (something made from) the result of the conversion
            for v in F.walk(fn.get("body"), into_lambdas=False):
                if v.get("k") == "var" and v.get("init") is not None and any(is_cvt(m) or (m.get("k") == "ref" and m.get("id") in derived) for m in F.walk(v["init"])):
                    derived.add(v["id"])
            if len(all_calls) != 1:
                why = "impl::codecvt is called %d times, expected exactly once" % len(all_calls)
            else:
                a = [T.show(T.snorm(u, fn, x)) for x in all_calls[0].get("args", [])]
                if len(a) != 3 or a[0] != "r_a0" or a[1] != "r_a1" or a[2].replace(" ", "").split("::")[-1].lstrip("&") != direction:
                    why = "impl::codecvt is called with (%s), expected (the whole string, the caller's locale, &codecvt_type::%s)" % (", ".join(a), direction)
            for r in top_rets:
                if why:
                    break
                if not any(is_cvt(m) or (m.get("k") == "ref" and m.get("id") in derived) for m in F.walk(r["e"])):
                    why = "a value is returned that does not come from impl::codecvt (%s): the conversion facet of the locale is bypassed" % T.show(T.snorm(u, fn, r["e"]))[:120]
            (rep.fail if why else rep.ok)("CVT", nm.replace("fcppt::", ""), F.primary_site(fn), F.describe(fn)[:140],
                                          **({"why": why} if why else {"how": "codecvt(string, locale, &codecvt_type::%s)" % direction}))
    # ---------------- ENUM-IO (input side): a word that was read but is not an enumerator's name (cannot be narrowed, or is unknown)
    # sets failbit -- on every path of input(), whatever the optional chaining looks like. (When no word can be read the stream
    # has set failbit itself; setting it again is allowed, not required.)
    seen = set()
    for fn in db.fns("fcppt::enum_::input"):
        ch = (fn.get("targs") or ["?"])[0]
        if ch in seen:
            continue
        seen.add(ch)
        icfg = sx.Config(inline_prefixes=("fcppt::optional::", "fcppt::cond"), loop_bound=2, ref_writes=True)
        try:
            ps = sx.Interp(db, icfg).paths(fn)
        except sx.Unsupported as e:
            rep.broken("C15 ENUM: enum_::input outside the interpreted fragment: %s" % e)
            continue
        why = None
        nfail = 0
        for p_ in ps:
            if p_.outcome[0] != "return":
                continue
            stages = []
            for d, v in p_.decisions:
                t = sx.show(d)
                m = re.match(r"^has_value\(#(\d+):(\w+)\)$", t)
                if not m:
                    why = "the result depends on %s, expected only on whether extraction, narrowing and from_string yield a value" % t
                    break
                stages.append((m.group(2), v))
            if why:
                break
            read_ok = any(nm == "extract" and v for nm, v in stages)
            failed_later = [nm for nm, v in stages if nm != "extract" and not v]
            sets = [e for e in p_.events if e[0].split("<")[0].endswith("::setstate") and len(e[1]) == 2 and sx.show(e[1][0]) == fn["params"][0]["name"]]
            if read_ok and failed_later:
                nfail += 1
                if not sets:
                    why = "a word is read but %s yields nothing, and failbit is not set: the caller sees a successful extraction with the target unchanged" % failed_later[0]
                    break
            if all(v for nm, v in stages) and sets:
                why = "failbit is set although an enumerator was read"
                break
        if not why and nfail < 2:
            why = "fewer than two failure paths after a successful read (narrowing fails / name unknown)"
        (rep.fail if why else rep.ok)("ENUM", "enum_::input<%s>|failure" % ch, F.primary_site(fn), F.describe(fn)[:140],
                                      **({"why": why} if why else {"how": "failbit on every path where a word was read but no enumerator results"}))
    # ---------------- EXTR
    seen = set()
    for fn in db.fns("fcppt::extract_from_string_locale"):
        u = fn["_unit"]
        if F.primary_site(fn) in seen:
            continue
        seen.add(F.primary_site(fn))
        rets = [r for r in F.walk(fn.get("body"), into_lambdas=False) if r.get("k") == "return"]
        t = T.return_term(u, fn, subst=False)
        elset = T.show(t[3]) if isinstance(t, tuple) and t[0] == "cond" else ""
        # the else branch is optional::nothing{} converted to the result type (no value involved)
        iss = next((T.show(T.norm(u, n.get("recv"))) for (n, d, q) in L.calls_in(u, fn.get("body")) if q.endswith("::imbue") and n.get("recv") is not None), "?")
        res = [m.get("name") for r_ in rets for m in F.walk(r_["e"]) if m.get("k") == "ref" and m.get("dk") == "local" and m.get("name") != iss]
        ok = isinstance(t, tuple) and t[0] == "cond" and T.show(t[1]) == iss + ".eof()" and len(set(res)) == 1 and res[0] in T.show(t[2]) and res[0] not in elset
        imb = [T.show(T.norm(u, n["args"][0])) for (n, d, q) in L.calls_in(u, fn.get("body")) if q.endswith("::imbue")]
        ok = ok and imb == ["r_a1"]
        (rep.ok if ok else rep.fail)("EXTR", "extract_from_string_locale", F.primary_site(fn), F.describe(fn)[:140],
                                     **({"how": "iss.eof() ? result : nothing; imbue(_locale)"} if ok else {"why": "returns %s, imbues %s" % (T.show(t) if t else "?", imb)}))
    seen = set()
    for fn in db.fns("fcppt::output_to_string_locale"):
        u = fn["_unit"]
        if F.primary_site(fn) in seen:
            continue
        seen.add(F.primary_site(fn))
        imb = [T.show(T.norm(u, n["args"][0])) for (n, d, q) in L.calls_in(u, fn.get("body")) if q.endswith("::imbue")]
        ok = imb == ["r_a1"]
        (rep.ok if ok else rep.fail)("EXTR", "output_to_string_locale", F.primary_site(fn), F.describe(fn)[:140], **({"how": "imbue(_locale)"} if ok else {"why": "imbues %s" % imb}))
    rep.explanation = ("Sibling-agreement and table rules between the writers and readers of each encoding: same byte count and byte-order "
                       "conversion, same token sequence, same name table, never success on a partial conversion. Necessary conditions of "
                       "the round-trip property that are visible in code shape; the inverse relation of iostreams / std::codecvt is trusted.")
    rep.trusted = ["iostream formatting and std::codecvt facets invert each other for valid input", "clang 14 front end"]
