#include <fcppt/container/join.hpp>
#include <set>
#include <iostream>
struct el { int v; static inline int copies = 0; el(int x):v(x){} el(el const &o):v(o.v){++copies;} el(el&&o) noexcept :v(o.v){} el&operator=(el const&)=default; bool operator<(el const&o) const {return v<o.v;} };
int main(){ std::set<el> a; a.emplace(1); std::set<el> b; b.emplace(2); b.emplace(3); el::copies=0;
 auto r = fcppt::container::join(std::move(a), std::move(b));
 std::cout << "size " << r.size() << " copies of elements of rvalue arguments: " << el::copies << "\n"; return el::copies==0?0:1; }
