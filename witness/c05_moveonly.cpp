// C05 (a): move-only witnesses.
// Every witness instantiates one operation with an rvalue argument whose element / payload /
// failure type is move-only (probe::mo, probe::mo2: no copy constructor, no copy assignment).
// "This compiles" proves, for every input and on every path of every function involved, that no
// copy of such an element is made. Continuations take the element BY VALUE (or by &&) wherever
// the library hands it over as an rvalue, which additionally proves the hand-over is a move;
// where the library passes an lvalue reference by design the obligation text says so.
// A witness that does not compile is a finding (see the report of the C05 check); witnesses are
// never weakened to hide a copy made by the library.
// Compiled with -fsyntax-only only; nothing here is linked or run.
#include "probe.hpp"
#include <fcppt/algorithm/fold.hpp>
#include <fcppt/algorithm/fold_break.hpp>
#include <fcppt/algorithm/loop.hpp>
#include <fcppt/algorithm/loop_break.hpp>
#include <fcppt/algorithm/loop_break_tuple.hpp>
#include <fcppt/algorithm/map.hpp>
#include <fcppt/algorithm/map_array.hpp>
#include <fcppt/algorithm/map_concat.hpp>
#include <fcppt/algorithm/map_optional.hpp>
#include <fcppt/algorithm/map_tuple.hpp>
#include <fcppt/algorithm/remove_if.hpp>
#include <fcppt/algorithm/reverse.hpp>
#include <fcppt/args_vector.hpp>
#include <fcppt/array/append.hpp>
#include <fcppt/array/apply.hpp>
#include <fcppt/array/from_range.hpp>
#include <fcppt/array/init.hpp>
#include <fcppt/array/join.hpp>
#include <fcppt/array/make.hpp>
#include <fcppt/array/map.hpp>
#include <fcppt/array/object_impl.hpp>
#include <fcppt/array/push_back.hpp>
#include <fcppt/container/get_or_insert.hpp>
#include <fcppt/container/get_or_insert_with_result.hpp>
#include <fcppt/container/grid/apply.hpp>
#include <fcppt/container/grid/map.hpp>
#include <fcppt/container/grid/object.hpp>
#include <fcppt/container/grid/resize.hpp>
#include <fcppt/container/grid/static_row.hpp>
#include <fcppt/container/join.hpp>
#include <fcppt/container/make_move_range.hpp>
#include <fcppt/container/pop_back.hpp>
#include <fcppt/container/pop_front.hpp>
#include <fcppt/container/tree/map.hpp>
#include <fcppt/container/tree/object.hpp>
#include <fcppt/either/apply.hpp>
#include <fcppt/either/bind.hpp>
#include <fcppt/either/construct.hpp>
#include <fcppt/either/error.hpp>
#include <fcppt/either/error_from_optional.hpp>
#include <fcppt/either/failure_opt.hpp>
#include <fcppt/either/first_success.hpp>
#include <fcppt/either/from_optional.hpp>
#include <fcppt/either/join.hpp>
#include <fcppt/either/loop.hpp>
#include <fcppt/either/make_failure.hpp>
#include <fcppt/either/make_success.hpp>
#include <fcppt/either/map.hpp>
#include <fcppt/either/map_failure.hpp>
#include <fcppt/either/match.hpp>
#include <fcppt/either/no_error.hpp>
#include <fcppt/either/object_impl.hpp>
#include <fcppt/either/sequence.hpp>
#include <fcppt/either/sequence_error.hpp>
#include <fcppt/either/success_opt.hpp>
#include <fcppt/either/to_exception.hpp>
#include <fcppt/either/try_call.hpp>
#include <fcppt/loop.hpp>
#include <fcppt/make_cref.hpp>
#include <fcppt/optional/alternative.hpp>
#include <fcppt/optional/apply.hpp>
#include <fcppt/optional/assign.hpp>
#include <fcppt/optional/bind.hpp>
#include <fcppt/optional/cat.hpp>
#include <fcppt/optional/combine.hpp>
#include <fcppt/optional/filter.hpp>
#include <fcppt/optional/from.hpp>
#include <fcppt/optional/join.hpp>
#include <fcppt/optional/make.hpp>
#include <fcppt/optional/make_if.hpp>
#include <fcppt/optional/map.hpp>
#include <fcppt/optional/maybe.hpp>
#include <fcppt/optional/maybe_multi.hpp>
#include <fcppt/optional/maybe_void.hpp>
#include <fcppt/optional/maybe_void_multi.hpp>
#include <fcppt/optional/object_impl.hpp>
#include <fcppt/optional/sequence.hpp>
#include <fcppt/optional/to_exception.hpp>
#include <fcppt/options/apply.hpp>
#include <fcppt/options/base.hpp>
#include <fcppt/options/base_unique_ptr.hpp>
#include <fcppt/options/flag_name_set.hpp>
#include <fcppt/options/left.hpp>
#include <fcppt/options/make_base.hpp>
#include <fcppt/options/make_commands.hpp>
#include <fcppt/options/make_left.hpp>
#include <fcppt/options/make_many.hpp>
#include <fcppt/options/make_optional.hpp>
#include <fcppt/options/make_right.hpp>
#include <fcppt/options/make_sub_command.hpp>
#include <fcppt/options/make_success.hpp>
#include <fcppt/options/make_sum.hpp>
#include <fcppt/options/option_name_set.hpp>
#include <fcppt/options/optional_help_text.hpp>
#include <fcppt/options/parse.hpp>
#include <fcppt/options/parse_context.hpp>
#include <fcppt/options/parse_result.hpp>
#include <fcppt/options/result.hpp>
#include <fcppt/options/result_of.hpp>
#include <fcppt/options/right.hpp>
#include <fcppt/options/state.hpp>
#include <fcppt/options/state_with_value.hpp>
#include <fcppt/parse/alternative_impl.hpp>
#include <fcppt/parse/as_struct.hpp>
#include <fcppt/parse/base_unique_ptr.hpp>
#include <fcppt/parse/basic_stream_fwd.hpp>
#include <fcppt/parse/construct.hpp>
#include <fcppt/parse/convert.hpp>
#include <fcppt/parse/convert_if.hpp>
#include <fcppt/parse/error.hpp>
#include <fcppt/parse/fatal_impl.hpp>
#include <fcppt/parse/grammar.hpp>
#include <fcppt/parse/ignore.hpp>
#include <fcppt/parse/lexeme.hpp>
#include <fcppt/parse/list.hpp>
#include <fcppt/parse/make_base.hpp>
#include <fcppt/parse/make_convert.hpp>
#include <fcppt/parse/make_convert_if.hpp>
#include <fcppt/parse/make_fatal.hpp>
#include <fcppt/parse/make_ignore.hpp>
#include <fcppt/parse/make_lexeme.hpp>
#include <fcppt/parse/make_recursive.hpp>
#include <fcppt/parse/make_success.hpp>
#include <fcppt/parse/named.hpp>
#include <fcppt/parse/operators/alternative.hpp>
#include <fcppt/parse/operators/optional.hpp>
#include <fcppt/parse/operators/repetition.hpp>
#include <fcppt/parse/operators/repetition_plus.hpp>
#include <fcppt/parse/operators/sequence.hpp>
#include <fcppt/parse/optional_impl.hpp>
#include <fcppt/parse/parse_string.hpp>
#include <fcppt/parse/phrase_parse_string.hpp>
#include <fcppt/parse/recursive.hpp>
#include <fcppt/parse/repetition_impl.hpp>
#include <fcppt/parse/repetition_plus_impl.hpp>
#include <fcppt/parse/result.hpp>
#include <fcppt/parse/result_of.hpp>
#include <fcppt/parse/separator.hpp>
#include <fcppt/parse/sequence_impl.hpp>
#include <fcppt/parse/skipper/epsilon.hpp>
#include <fcppt/parse/tag.hpp>
#include <fcppt/record/element.hpp>
#include <fcppt/record/get.hpp>
#include <fcppt/record/init.hpp>
#include <fcppt/record/make_label.hpp>
#include <fcppt/record/map.hpp>
#include <fcppt/record/multiply_disjoint.hpp>
#include <fcppt/record/object_impl.hpp>
#include <fcppt/record/permute.hpp>
#include <fcppt/record/set.hpp>
#include <fcppt/recursive_impl.hpp>
#include <fcppt/reference_impl.hpp>
#include <fcppt/string.hpp>
#include <fcppt/tuple/apply.hpp>
#include <fcppt/tuple/concat.hpp>
#include <fcppt/tuple/from_array.hpp>
#include <fcppt/tuple/get.hpp>
#include <fcppt/tuple/init.hpp>
#include <fcppt/tuple/invoke.hpp>
#include <fcppt/tuple/make.hpp>
#include <fcppt/tuple/map.hpp>
#include <fcppt/tuple/object_impl.hpp>
#include <fcppt/tuple/push_back.hpp>
#include <fcppt/unit.hpp>
#include <fcppt/variant/apply.hpp>
#include <fcppt/variant/get_unsafe.hpp>
#include <fcppt/variant/match.hpp>
#include <fcppt/variant/object_impl.hpp>
#include <fcppt/variant/to_optional.hpp>
#include <array>
#include <cstddef>
#include <deque>
#include <list>
#include <map>
#include <set>
#include <stdexcept>
#include <string>
#include <type_traits>
#include <unordered_map>
#include <utility>
#include <vector>

using probe::mo;
using probe::mo2;

// ---------------------------------------------------------------------------------------------
// algorithm
// ---------------------------------------------------------------------------------------------
WITNESS(c05_algorithm_map_vector_to_vector, "algorithm::map<std::vector> over an rvalue std::vector hands every element to the function by move and copies neither source nor result elements")
{
  std::vector<mo2> r{fcppt::algorithm::map<std::vector<mo2>>(probe::make<std::vector<mo>>(), [](mo x) { (void)x; return mo2{1}; })};
  (void)r;
}
WITNESS(c05_algorithm_map_vector_to_list, "algorithm::map<std::list> over an rvalue std::vector moves every element into the function and every result into the list")
{
  (void)fcppt::algorithm::map<std::list<mo2>>(probe::make<std::vector<mo>>(), [](mo x) { (void)x; return mo2{1}; });
}
WITNESS(c05_algorithm_map_vector_to_deque, "algorithm::map<std::deque> over an rvalue std::vector moves every element into the function and every result into the deque")
{
  (void)fcppt::algorithm::map<std::deque<mo2>>(probe::make<std::vector<mo>>(), [](mo &&x) { (void)x; return mo2{1}; });
}
WITNESS(c05_algorithm_map_vector_to_set, "algorithm::map<std::set> over an rvalue std::vector moves every result into the set (hinted insert)")
{
  (void)fcppt::algorithm::map<std::set<mo2>>(probe::make<std::vector<mo>>(), [](mo x) { (void)x; return mo2{1}; });
}
WITNESS(c05_algorithm_map_vector_to_map, "algorithm::map<std::map> over an rvalue std::vector moves key/mapped pairs into the map")
{
  (void)fcppt::algorithm::map<std::map<int, mo2>>(probe::make<std::vector<mo>>(), [](mo x) { (void)x; return std::pair<int const, mo2>{1, mo2{1}}; });
}
WITNESS(c05_algorithm_map_list_to_vector, "algorithm::map<std::vector> over an rvalue std::list moves every element into the function")
{
  (void)fcppt::algorithm::map<std::vector<mo2>>(probe::make<std::list<mo>>(), [](mo x) { (void)x; return mo2{1}; });
}
WITNESS(c05_algorithm_map_deque_to_vector, "algorithm::map<std::vector> over an rvalue std::deque moves every element into the function")
{
  (void)fcppt::algorithm::map<std::vector<mo2>>(probe::make<std::deque<mo>>(), [](mo x) { (void)x; return mo2{1}; });
}
WITNESS(c05_algorithm_map_std_array_to_vector, "algorithm::map<std::vector> over an rvalue std::array moves every element into the function")
{
  (void)fcppt::algorithm::map<std::vector<mo2>>(probe::make<std::array<mo, 3>>(), [](mo x) { (void)x; return mo2{1}; });
}
WITNESS(c05_algorithm_map_fcppt_array_to_vector, "algorithm::map<std::vector> over an rvalue fcppt::array::object moves every element into the function")
{
  (void)fcppt::algorithm::map<std::vector<mo2>>(probe::make<fcppt::array::object<mo, 3>>(), [](mo x) { (void)x; return mo2{1}; });
}
WITNESS(c05_algorithm_map_fcppt_array_to_fcppt_array, "algorithm::map<fcppt::array::object> over an rvalue fcppt::array::object (map_array specialisation) moves every element")
{
  (void)fcppt::algorithm::map<fcppt::array::object<mo2, 3>>(probe::make<fcppt::array::object<mo, 3>>(), [](mo x) { (void)x; return mo2{1}; });
}
WITNESS(c05_algorithm_map_tuple_to_tuple, "algorithm::map<fcppt::tuple::object> over an rvalue fcppt::tuple::object (map_tuple specialisation) moves every element")
{
  (void)fcppt::algorithm::map<fcppt::tuple::object<mo2, mo2>>(probe::make<fcppt::tuple::object<mo, mo>>(), [](mo x) { (void)x; return mo2{1}; });
}
WITNESS(c05_algorithm_map_map_source_to_vector, "algorithm::map<std::vector> over an rvalue std::map hands each key/mapped pair to the function as an rvalue")
{
  (void)fcppt::algorithm::map<std::vector<mo2>>(probe::make<std::map<int, mo>>(), [](std::pair<int const, mo> &&x) { mo y{std::move(x.second)}; (void)y; return mo2{1}; });
}
WITNESS(c05_algorithm_map_lvalue_source, "algorithm::map over an lvalue std::vector passes elements as lvalue references (no copy, no steal)")
{
  (void)fcppt::algorithm::map<std::vector<mo2>>(probe::lvalue<std::vector<mo>>(), [](mo &x) { (void)x; return mo2{1}; });
}
WITNESS(c05_algorithm_map_const_lvalue_source, "algorithm::map over a const std::vector passes elements as const references (no copy)")
{
  (void)fcppt::algorithm::map<std::vector<mo2>>(probe::clvalue<std::vector<mo>>(), [](mo const &x) { (void)x; return mo2{1}; });
}
WITNESS(c05_algorithm_fold_range, "algorithm::fold over an rvalue range never copies an element; by design the element is passed as an lvalue reference (mo &) even for an rvalue range")
{
  (void)fcppt::algorithm::fold(probe::make<std::vector<mo>>(), 0, [](mo &x, int s) { (void)x; return s; });
}
WITNESS(c05_algorithm_fold_state, "algorithm::fold moves the state into the function and move-assigns the result back (state type move-only, taken by value)")
{
  mo2 r{fcppt::algorithm::fold(probe::make<std::vector<mo>>(), probe::make<mo2>(), [](mo &x, mo2 s) { (void)x; return s; })};
  (void)r;
}
WITNESS(c05_algorithm_fold_break_range, "algorithm::fold_break over an rvalue range never copies an element; by design the element is passed as an lvalue reference (mo &)")
{
  (void)fcppt::algorithm::fold_break(probe::make<std::vector<mo>>(), 0, [](mo &x, int s) { (void)x; return std::make_pair(fcppt::loop::continue_, s); });
}
WITNESS(c05_algorithm_fold_break_state, "algorithm::fold_break moves the state into the function and back out of the returned pair (state type move-only, taken by value)")
{
  mo2 r{fcppt::algorithm::fold_break(probe::make<std::vector<mo>>(), probe::make<mo2>(), [](mo &x, mo2 s) { (void)x; return std::pair<fcppt::loop, mo2>{fcppt::loop::break_, std::move(s)}; })};
  (void)r;
}
WITNESS(c05_algorithm_map_concat_range, "algorithm::map_concat over an rvalue range never copies a source element (passed as lvalue reference mo & by design) and moves the per-element result containers into the joined result")
{
  (void)fcppt::algorithm::map_concat<std::vector<mo2>>(probe::make<std::vector<mo>>(), [](mo &x) { (void)x; return probe::make<std::vector<mo2>>(); });
}
WITNESS(c05_algorithm_map_concat_list_target, "algorithm::map_concat into std::list moves the per-element result lists into the joined result")
{
  (void)fcppt::algorithm::map_concat<std::list<mo2>>(probe::make<std::list<mo>>(), [](mo &x) { (void)x; return probe::make<std::list<mo2>>(); });
}
WITNESS(c05_algorithm_map_optional_range, "algorithm::map_optional over an rvalue range never copies a source element (passed as lvalue reference by design) and moves each produced payload into the result")
{
  (void)fcppt::algorithm::map_optional<std::vector<mo2>>(probe::make<std::vector<mo>>(), [](mo &x) { (void)x; return probe::make<fcppt::optional::object<mo2>>(); });
}
WITNESS(c05_algorithm_reverse_vector, "algorithm::reverse of an rvalue std::vector reverses in place and moves the container out (no element copy)")
{
  std::vector<mo> r{fcppt::algorithm::reverse(probe::make<std::vector<mo>>())};
  (void)r;
}
WITNESS(c05_algorithm_reverse_list, "algorithm::reverse of an rvalue std::list copies no element")
{
  (void)fcppt::algorithm::reverse(probe::make<std::list<mo>>());
}
WITNESS(c05_algorithm_loop_rvalue_range, "algorithm::loop over an rvalue range copies no element; by design the body receives an lvalue reference (mo &)")
{
  fcppt::algorithm::loop(probe::make<std::vector<mo>>(), [](mo &x) { (void)x; });
}
WITNESS(c05_algorithm_loop_move_range, "algorithm::loop over container::make_move_range(rvalue) hands every element to the body as an rvalue (by-value parameter)")
{
  fcppt::algorithm::loop(fcppt::container::make_move_range(probe::make<std::vector<mo>>()), [](mo x) { (void)x; });
}
WITNESS(c05_algorithm_loop_break_rvalue_range, "algorithm::loop_break over an rvalue range copies no element (body receives mo & by design)")
{
  fcppt::algorithm::loop_break(probe::make<std::vector<mo>>(), [](mo &x) { (void)x; return fcppt::loop::continue_; });
}
WITNESS(c05_algorithm_loop_tuple, "algorithm::loop over an rvalue fcppt::tuple::object copies no element (body receives lvalue references by design)")
{
  fcppt::algorithm::loop(probe::make<fcppt::tuple::object<mo, mo2>>(), [](auto &x) { (void)x; });
}
WITNESS(c05_algorithm_remove_if, "algorithm::remove_if on a std::vector of move-only elements only move-assigns elements (predicate sees const references)")
{
  (void)fcppt::algorithm::remove_if(probe::lvalue<std::vector<mo>>(), [](mo const &x) { (void)x; return true; });
}
// algorithm::remove(Container &, const_reference) is not covered: it takes no rvalue argument and
// captures the const-reference element by copy in its predicate (algorithm/remove.hpp), i.e. it
// needs a copyable element by design of its signature.

// ---------------------------------------------------------------------------------------------
// container
// ---------------------------------------------------------------------------------------------
WITNESS(c05_container_join_first, "container::join with an rvalue first argument moves the first container into the result (no element copy)")
{
  std::vector<mo> r{fcppt::container::join(probe::make<std::vector<mo>>())};
  (void)r;
}
WITNESS(c05_container_join_second, "container::join moves the elements of an rvalue second argument into the result (move iterators)")
{
  (void)fcppt::container::join(probe::make<std::vector<mo>>(), probe::make<std::vector<mo>>());
}
WITNESS(c05_container_join_third, "container::join moves the elements of every further rvalue argument into the result")
{
  (void)fcppt::container::join(probe::make<std::vector<mo>>(), probe::make<std::vector<mo>>(), probe::make<std::vector<mo>>());
}
WITNESS(c05_container_join_list, "container::join on rvalue std::list arguments moves all elements")
{
  (void)fcppt::container::join(probe::make<std::list<mo>>(), probe::make<std::list<mo>>());
}
// (std::set iterators are const, so std::move_iterator over them yields `T const &&`: a range
// insert from an rvalue set copy-constructs every element; moving would need merge()/extract())
WITNESS(c05_container_join_set, "container::join on rvalue std::set arguments copies no element of the rvalue second set")
{
  (void)fcppt::container::join(probe::make<std::set<mo>>(), probe::make<std::set<mo>>());
}
WITNESS(c05_container_join_map, "container::join on rvalue std::map arguments with move-only mapped type moves all elements")
{
  (void)fcppt::container::join(probe::make<std::map<int, mo>>(), probe::make<std::map<int, mo>>());
}
WITNESS(c05_container_pop_back_vector, "container::pop_back moves the last element out of the container into the optional result")
{
  fcppt::optional::object<mo> r{fcppt::container::pop_back(probe::lvalue<std::vector<mo>>())};
  (void)r;
}
WITNESS(c05_container_pop_back_deque, "container::pop_back on std::deque moves the last element out")
{
  (void)fcppt::container::pop_back(probe::lvalue<std::deque<mo>>());
}
WITNESS(c05_container_pop_front_deque, "container::pop_front moves the first element out of the container into the optional result")
{
  fcppt::optional::object<mo> r{fcppt::container::pop_front(probe::lvalue<std::deque<mo>>())};
  (void)r;
}
WITNESS(c05_container_pop_front_list, "container::pop_front on std::list moves the first element out")
{
  (void)fcppt::container::pop_front(probe::lvalue<std::list<mo>>());
}
WITNESS(c05_container_make_move_range, "container::make_move_range takes ownership of an rvalue container by move and yields rvalue elements")
{
  auto r{fcppt::container::make_move_range(probe::make<std::vector<mo>>())};
  static_assert(std::is_same_v<decltype(*r.begin()), mo &&>);
  mo x{*r.begin()};
  (void)x;
  auto r2{std::move(r)};
  (void)r2;
}
WITNESS(c05_container_get_or_insert_mapped, "container::get_or_insert moves the created mapped value into the map (mapped type move-only; the key is a const reference and is copied by design)")
{
  mo &r{fcppt::container::get_or_insert(probe::lvalue<std::map<int, mo>>(), 1, [](int) { return mo{1}; })};
  (void)r;
}
WITNESS(c05_container_get_or_insert_unordered, "container::get_or_insert on std::unordered_map moves the created mapped value into the map")
{
  (void)fcppt::container::get_or_insert(probe::lvalue<std::unordered_map<int, mo>>(), 1, [](int) { return mo{1}; });
}
WITNESS(c05_container_get_or_insert_with_result_mapped, "container::get_or_insert_with_result moves the created mapped value into the map")
{
  mo &r{fcppt::container::get_or_insert_with_result(probe::lvalue<std::map<int, mo>>(), 1, [](int) { return mo{1}; }).element()};
  (void)r;
}
// get_or_insert with a move-only KEY is not meaningful: the key parameter is `key_type const &`
// and has to be copied into the container on insertion.

// ---------------------------------------------------------------------------------------------
// optional
// ---------------------------------------------------------------------------------------------
using opt_mo = fcppt::optional::object<mo>;
using opt_mo2 = fcppt::optional::object<mo2>;

WITNESS(c05_optional_object_ctor_rvalue, "optional::object<T>(T &&) moves the payload in")
{
  opt_mo o{probe::make<mo>()};
  (void)o;
}
WITNESS(c05_optional_object_move_ctor, "optional::object<T> is move constructible without copying the payload")
{
  opt_mo o{probe::make<opt_mo>()};
  opt_mo p{std::move(o)};
  (void)p;
}
WITNESS(c05_optional_object_move_assign, "optional::object<T> is move assignable without copying the payload")
{
  probe::lvalue<opt_mo>() = probe::make<opt_mo>();
  probe::lvalue<opt_mo>() = opt_mo{};
}
WITNESS(c05_optional_object_get_unsafe, "optional::object<T>::get_unsafe yields references (no copy); the payload of an rvalue optional can be moved out")
{
  static_assert(std::is_same_v<decltype(probe::lvalue<opt_mo>().get_unsafe()), mo &>);
  static_assert(std::is_same_v<decltype(probe::clvalue<opt_mo>().get_unsafe()), mo const &>);
  mo x{std::move(probe::lvalue<opt_mo>().get_unsafe())};
  (void)x;
}
WITNESS(c05_optional_map_rvalue, "optional::map on an rvalue optional hands the payload to the function by move and moves the result into the new optional")
{
  opt_mo2 r{fcppt::optional::map(probe::make<opt_mo>(), [](mo x) { (void)x; return mo2{1}; })};
  (void)r;
}
WITNESS(c05_optional_map_lvalue, "optional::map on an lvalue optional passes the payload as an lvalue reference (no copy, no steal)")
{
  (void)fcppt::optional::map(probe::lvalue<opt_mo>(), [](mo &x) { (void)x; return mo2{1}; });
  (void)fcppt::optional::map(probe::clvalue<opt_mo>(), [](mo const &x) { (void)x; return mo2{1}; });
}
WITNESS(c05_optional_bind_rvalue, "optional::bind on an rvalue optional hands the payload to the function by move")
{
  opt_mo2 r{fcppt::optional::bind(probe::make<opt_mo>(), [](mo x) { (void)x; return probe::make<opt_mo2>(); })};
  (void)r;
}
WITNESS(c05_optional_join_rvalue, "optional::join on an rvalue optional<optional<T>> moves the inner optional out")
{
  opt_mo r{fcppt::optional::join(probe::make<fcppt::optional::object<opt_mo>>())};
  (void)r;
}
WITNESS(c05_optional_apply_first, "optional::apply hands the payload of an rvalue first optional to the function by move")
{
  opt_mo2 r{fcppt::optional::apply([](mo x) { (void)x; return mo2{1}; }, probe::make<opt_mo>())};
  (void)r;
}
WITNESS(c05_optional_apply_second, "optional::apply hands the payloads of all rvalue optionals to the function by move")
{
  (void)fcppt::optional::apply([](mo x, mo2 y) { (void)x; (void)y; return mo2{1}; }, probe::make<opt_mo>(), probe::make<opt_mo2>());
}
WITNESS(c05_optional_apply_mixed, "optional::apply moves only out of rvalue optionals and passes lvalue optionals' payloads by reference")
{
  (void)fcppt::optional::apply([](mo &x, mo2 y) { (void)x; (void)y; return mo2{1}; }, probe::lvalue<opt_mo>(), probe::make<opt_mo2>());
}
WITNESS(c05_optional_filter_rvalue, "optional::filter on an rvalue optional shows the payload to the predicate by reference and moves the optional into the result")
{
  opt_mo r{fcppt::optional::filter(probe::make<opt_mo>(), [](mo const &x) { (void)x; return true; })};
  (void)r;
}
WITNESS(c05_optional_alternative_rvalue, "optional::alternative moves an rvalue first optional (or the function's result) into the result")
{
  opt_mo r{fcppt::optional::alternative(probe::make<opt_mo>(), [] { return probe::make<opt_mo>(); })};
  (void)r;
}
WITNESS(c05_optional_combine_first, "optional::combine hands the payloads of rvalue optionals to the function by move and moves a lone optional into the result")
{
  opt_mo r{fcppt::optional::combine(probe::make<opt_mo>(), probe::make<opt_mo>(), [](mo x, mo y) { (void)y; return x; })};
  (void)r;
}
WITNESS(c05_optional_combine_second, "optional::combine hands the payload of an rvalue second optional to the function as an rvalue reference and moves a lone second optional into the result")
{
  (void)fcppt::optional::combine(probe::make<opt_mo>(), probe::make<opt_mo>(), [](mo &&x, mo &&y) { (void)y; return std::move(x); });
}
WITNESS(c05_optional_cat_rvalue, "optional::cat over an rvalue container of optionals moves every payload into the result container")
{
  std::vector<mo> r{fcppt::optional::cat<std::vector<mo>>(probe::make<std::vector<opt_mo>>())};
  (void)r;
}
WITNESS(c05_optional_cat_list, "optional::cat over an rvalue std::list of optionals moves every payload")
{
  (void)fcppt::optional::cat<std::list<mo>>(probe::make<std::list<opt_mo>>());
}
WITNESS(c05_optional_sequence_vector, "optional::sequence over an rvalue container of optionals moves every payload into the result container")
{
  fcppt::optional::object<std::vector<mo>> r{fcppt::optional::sequence<std::vector<mo>>(probe::make<std::vector<opt_mo>>())};
  (void)r;
}
WITNESS(c05_optional_sequence_tuple, "optional::sequence over an rvalue tuple of optionals moves every payload into the result tuple")
{
  (void)fcppt::optional::sequence<fcppt::tuple::object<mo, mo2>>(probe::make<fcppt::tuple::object<opt_mo, opt_mo2>>());
}
WITNESS(c05_optional_from_rvalue, "optional::from moves the payload of an rvalue optional (or the default's result) out")
{
  mo r{fcppt::optional::from(probe::make<opt_mo>(), [] { return mo{1}; })};
  (void)r;
}
WITNESS(c05_optional_maybe_rvalue, "optional::maybe hands the payload of an rvalue optional to the transform by move")
{
  mo2 r{fcppt::optional::maybe(probe::make<opt_mo>(), [] { return mo2{1}; }, [](mo x) { (void)x; return mo2{1}; })};
  (void)r;
}
WITNESS(c05_optional_maybe_void_rvalue, "optional::maybe_void hands the payload of an rvalue optional to the function by move")
{
  fcppt::optional::maybe_void(probe::make<opt_mo>(), [](mo x) { (void)x; });
}
WITNESS(c05_optional_maybe_void_lvalue, "optional::maybe_void on an lvalue optional passes the payload as an lvalue reference")
{
  fcppt::optional::maybe_void(probe::lvalue<opt_mo>(), [](mo &x) { (void)x; });
}
WITNESS(c05_optional_maybe_multi_rvalue, "optional::maybe_multi hands the payloads of all rvalue optionals to the transform by move")
{
  mo2 r{fcppt::optional::maybe_multi([] { return mo2{1}; }, [](mo x, mo2 y) { (void)x; return y; }, probe::make<opt_mo>(), probe::make<opt_mo2>())};
  (void)r;
}
WITNESS(c05_optional_maybe_void_multi_rvalue, "optional::maybe_void_multi hands the payloads of all rvalue optionals to the function by move")
{
  fcppt::optional::maybe_void_multi([](mo x, mo2 y) { (void)x; (void)y; }, probe::make<opt_mo>(), probe::make<opt_mo2>());
}
WITNESS(c05_optional_make_rvalue, "optional::make moves an rvalue into the new optional")
{
  opt_mo r{fcppt::optional::make(probe::make<mo>())};
  (void)r;
}
WITNESS(c05_optional_make_if, "optional::make_if moves the function's result into the new optional")
{
  opt_mo r{fcppt::optional::make_if(true, [] { return mo{1}; })};
  (void)r;
}
WITNESS(c05_optional_to_exception_rvalue, "optional::to_exception on an rvalue optional yields the payload as an rvalue (moved out, not copied)")
{
  mo r{fcppt::optional::to_exception(probe::make<opt_mo>(), [] { return std::runtime_error{"x"}; })};
  (void)r;
  static_assert(std::is_same_v<decltype(fcppt::optional::to_exception(probe::make<opt_mo>(), [] { return std::runtime_error{"x"}; })), mo &&>);
}
WITNESS(c05_optional_assign_rvalue, "optional::assign moves an rvalue into the optional")
{
  mo &r{fcppt::optional::assign(probe::lvalue<opt_mo>(), probe::make<mo>())};
  (void)r;
}

// ---------------------------------------------------------------------------------------------
// either  (success type mo, failure type mo2: both move-only)
// ---------------------------------------------------------------------------------------------
using eth = fcppt::either::object<mo2, mo>;
struct res // a third move-only type for mapped successes/failures
{
  res() = delete;
  explicit res(int) {}
  res(res &&) noexcept = default;
  res &operator=(res &&) noexcept = default;
  res(res const &) = delete;
  res &operator=(res const &) = delete;
  ~res() = default;
};

WITNESS(c05_either_object_ctor_success, "either::object(Success &&) moves the success value in")
{
  eth e{probe::make<mo>()};
  (void)e;
}
WITNESS(c05_either_object_ctor_failure, "either::object(Failure &&) moves the failure value in")
{
  eth e{probe::make<mo2>()};
  (void)e;
}
WITNESS(c05_either_object_move_ctor, "either::object is move constructible without copying success or failure")
{
  eth e{probe::make<eth>()};
  eth f{std::move(e)};
  (void)f;
}
WITNESS(c05_either_object_move_assign, "either::object is move assignable without copying success or failure")
{
  probe::lvalue<eth>() = probe::make<eth>();
}
WITNESS(c05_either_object_get_unsafe, "either::object::get_success_unsafe / get_failure_unsafe yield references (no copy) that can be moved from")
{
  static_assert(std::is_same_v<decltype(probe::lvalue<eth>().get_success_unsafe()), mo &>);
  static_assert(std::is_same_v<decltype(probe::lvalue<eth>().get_failure_unsafe()), mo2 &>);
  static_assert(std::is_same_v<decltype(probe::clvalue<eth>().get_success_unsafe()), mo const &>);
  static_assert(std::is_same_v<decltype(probe::clvalue<eth>().get_failure_unsafe()), mo2 const &>);
  mo x{std::move(probe::lvalue<eth>().get_success_unsafe())};
  mo2 y{std::move(probe::lvalue<eth>().get_failure_unsafe())};
  (void)x;
  (void)y;
}
WITNESS(c05_either_map_rvalue, "either::map on an rvalue either hands the success to the function by move and moves the failure into the result")
{
  fcppt::either::object<mo2, res> r{fcppt::either::map(probe::make<eth>(), [](mo x) { (void)x; return res{1}; })};
  (void)r;
}
WITNESS(c05_either_map_failure_rvalue, "either::map_failure on an rvalue either hands the failure to the function by move and moves the success into the result")
{
  fcppt::either::object<res, mo> r{fcppt::either::map_failure(probe::make<eth>(), [](mo2 x) { (void)x; return res{1}; })};
  (void)r;
}
WITNESS(c05_either_bind_rvalue, "either::bind on an rvalue either hands the success to the function by move and moves (does not copy) the failure into the result")
{
  fcppt::either::object<mo2, res> r{fcppt::either::bind(probe::make<eth>(), [](mo x) { (void)x; return probe::make<fcppt::either::object<mo2, res>>(); })};
  (void)r;
}
WITNESS(c05_either_join_rvalue, "either::join on an rvalue either<F, either<F, S>> moves the inner either / the outer failure into the result")
{
  eth r{fcppt::either::join(probe::make<fcppt::either::object<mo2, eth>>())};
  (void)r;
}
WITNESS(c05_either_match_rvalue_success, "either::match on an rvalue either hands the success to the success function by move")
{
  res r{fcppt::either::match(probe::make<eth>(), [](mo2 &&) { return res{1}; }, [](mo x) { (void)x; return res{1}; })};
  (void)r;
}
WITNESS(c05_either_match_rvalue_failure, "either::match on an rvalue either hands the failure to the failure function by move")
{
  res r{fcppt::either::match(probe::make<eth>(), [](mo2 x) { (void)x; return res{1}; }, [](mo &&) { return res{1}; })};
  (void)r;
}
WITNESS(c05_either_match_lvalue, "either::match on an lvalue either passes success and failure as lvalue references (no copy, no steal)")
{
  (void)fcppt::either::match(probe::lvalue<eth>(), [](mo2 &) { return 1; }, [](mo &) { return 1; });
  (void)fcppt::either::match(probe::clvalue<eth>(), [](mo2 const &) { return 1; }, [](mo const &) { return 1; });
}
WITNESS(c05_either_apply_first, "either::apply hands the success of an rvalue first either to the function by move and moves the first failure into the result")
{
  fcppt::either::object<mo2, res> r{fcppt::either::apply([](mo x) { (void)x; return res{1}; }, probe::make<eth>())};
  (void)r;
}
WITNESS(c05_either_apply_second, "either::apply hands the successes of all rvalue eithers to the function by move and moves the first failure into the result")
{
  (void)fcppt::either::apply([](mo x, res y) { (void)x; (void)y; return res{1}; }, probe::make<eth>(), probe::make<fcppt::either::object<mo2, res>>());
}
WITNESS(c05_either_sequence_rvalue, "either::sequence over an rvalue container of eithers moves every success into the result container, or the first failure into the result")
{
  fcppt::either::object<mo2, std::vector<mo>> r{fcppt::either::sequence<std::vector<mo>>(probe::make<std::vector<eth>>())};
  (void)r;
}
WITNESS(c05_either_sequence_list, "either::sequence over an rvalue std::list of eithers moves successes and the first failure")
{
  (void)fcppt::either::sequence<std::list<mo>>(probe::make<std::list<eth>>());
}
WITNESS(c05_either_sequence_error_rvalue, "either::sequence_error over an rvalue sequence hands every element to the function by move and moves the first failure out")
{
  fcppt::either::error<mo2> r{fcppt::either::sequence_error(probe::make<std::vector<mo>>(), [](mo x) { (void)x; return probe::make<fcppt::either::error<mo2>>(); })};
  (void)r;
}
WITNESS(c05_either_first_success, "either::first_success moves the first success, or all failures, out of the functions' results")
{
  using fn = eth (*)();
  fcppt::either::object<std::vector<mo2>, mo> r{fcppt::either::first_success(probe::clvalue<std::vector<fn>>())};
  (void)r;
}
WITNESS(c05_either_from_optional_rvalue, "either::from_optional moves the payload of an rvalue optional into the success, or the failure function's result into the failure")
{
  eth r{fcppt::either::from_optional(probe::make<fcppt::optional::object<mo>>(), [] { return mo2{1}; })};
  (void)r;
}
WITNESS(c05_either_error_from_optional_rvalue, "either::error_from_optional moves the payload of an rvalue optional into the failure")
{
  fcppt::either::error<mo> r{fcppt::either::error_from_optional(probe::make<fcppt::optional::object<mo>>())};
  (void)r;
}
WITNESS(c05_either_to_exception_rvalue_success, "either::to_exception on an rvalue either yields the success as an rvalue (moved out, not copied)")
{
  mo r{fcppt::either::to_exception(probe::make<eth>(), [](mo2 &&) { return std::runtime_error{"x"}; })};
  (void)r;
}
WITNESS(c05_either_to_exception_rvalue_failure, "either::to_exception on an rvalue either hands the failure to the exception maker by move")
{
  (void)fcppt::either::to_exception(probe::make<eth>(), [](mo2 x) { (void)x; return std::runtime_error{"x"}; });
}
WITNESS(c05_either_try_call, "either::try_call moves the function's result into the success and the converter's result into the failure")
{
  eth r{fcppt::either::try_call<std::runtime_error>([] { return mo{1}; }, [](std::runtime_error const &) { return mo2{1}; })};
  (void)r;
}
WITNESS(c05_either_success_opt_rvalue, "either::success_opt on an rvalue either moves the success into the optional")
{
  fcppt::optional::object<mo> r{fcppt::either::success_opt(probe::make<eth>())};
  (void)r;
}
WITNESS(c05_either_failure_opt_rvalue, "either::failure_opt on an rvalue either moves the failure into the optional")
{
  fcppt::optional::object<mo2> r{fcppt::either::failure_opt(probe::make<eth>())};
  (void)r;
}
WITNESS(c05_either_make_success_rvalue, "either::make_success moves an rvalue into the either")
{
  eth r{fcppt::either::make_success<mo2>(probe::make<mo>())};
  (void)r;
}
WITNESS(c05_either_make_failure_rvalue, "either::make_failure moves an rvalue into the either")
{
  eth r{fcppt::either::make_failure<mo>(probe::make<mo2>())};
  (void)r;
}
WITNESS(c05_either_construct, "either::construct moves the chosen function's result into the either")
{
  eth r{fcppt::either::construct(true, [] { return mo{1}; }, [] { return mo2{1}; })};
  (void)r;
}
WITNESS(c05_either_loop, "either::loop hands every success to the loop body by move and moves the terminating failure out")
{
  mo2 r{fcppt::either::loop([] { return probe::make<eth>(); }, [](mo x) { (void)x; })};
  (void)r;
}

// ---------------------------------------------------------------------------------------------
// variant
// ---------------------------------------------------------------------------------------------
using var = fcppt::variant::object<mo, mo2>;

WITNESS(c05_variant_object_ctor_first, "variant::object(U &&) moves a value of the first alternative in")
{
  var v{probe::make<mo>()};
  (void)v;
}
WITNESS(c05_variant_object_ctor_second, "variant::object(U &&) moves a value of the second alternative in")
{
  var v{probe::make<mo2>()};
  (void)v;
}
WITNESS(c05_variant_object_move_ctor, "variant::object is move constructible without copying the held value")
{
  var v{probe::make<var>()};
  var w{std::move(v)};
  (void)w;
}
WITNESS(c05_variant_object_move_assign, "variant::object is move assignable without copying the held value")
{
  probe::lvalue<var>() = probe::make<var>();
}
WITNESS(c05_variant_match_rvalue, "variant::match on an rvalue variant hands the held value to the matching function by move")
{
  res r{fcppt::variant::match(probe::make<var>(), [](mo x) { (void)x; return res{1}; }, [](mo2 x) { (void)x; return res{1}; })};
  (void)r;
}
WITNESS(c05_variant_match_lvalue, "variant::match on an lvalue variant passes the held value as an lvalue reference (no copy, no steal)")
{
  (void)fcppt::variant::match(probe::lvalue<var>(), [](mo &) { return 1; }, [](mo2 &) { return 1; });
  (void)fcppt::variant::match(probe::clvalue<var>(), [](mo const &) { return 1; }, [](mo2 const &) { return 1; });
}
WITNESS(c05_variant_apply_unary_rvalue, "variant::apply on an rvalue variant hands the held value to the visitor as an rvalue")
{
  struct visitor
  {
    res operator()(mo x) const { (void)x; return res{1}; }
    res operator()(mo2 x) const { (void)x; return res{1}; }
  };
  res r{fcppt::variant::apply(visitor{}, probe::make<var>())};
  (void)r;
}
WITNESS(c05_variant_apply_binary_rvalue, "variant::apply on two rvalue variants hands both held values to the visitor as rvalues")
{
  (void)fcppt::variant::apply([](auto &&a, auto &&b) {
    static_assert(std::is_rvalue_reference_v<decltype(a)> && std::is_rvalue_reference_v<decltype(b)>);
    std::remove_cvref_t<decltype(a)> x{std::move(a)};
    std::remove_cvref_t<decltype(b)> y{std::move(b)};
    (void)x; (void)y;
    return 1; },
    probe::make<var>(), probe::make<var>());
}
WITNESS(c05_variant_to_optional_rvalue, "variant::to_optional on an rvalue variant moves the held value into the optional")
{
  fcppt::optional::object<mo> r{fcppt::variant::to_optional<mo>(probe::make<var>())};
  fcppt::optional::object<mo2> s{fcppt::variant::to_optional<mo2>(probe::make<var>())};
  (void)r;
  (void)s;
}
WITNESS(c05_variant_get_unsafe, "variant::get_unsafe yields a reference to the held value (no copy) that can be moved from; there is no rvalue overload (an rvalue variant binds to the const & overload)")
{
  static_assert(std::is_same_v<decltype(fcppt::variant::get_unsafe<mo>(probe::lvalue<var>())), mo &>);
  static_assert(std::is_same_v<decltype(fcppt::variant::get_unsafe<mo>(probe::clvalue<var>())), mo const &>);
  static_assert(std::is_same_v<decltype(fcppt::variant::get_unsafe<mo>(probe::make<var>())), mo const &>);
  mo x{std::move(fcppt::variant::get_unsafe<mo>(probe::lvalue<var>()))};
  mo2 y{std::move(probe::lvalue<var>().get_unsafe<mo2>())};
  (void)x;
  (void)y;
}

// ---------------------------------------------------------------------------------------------
// record
// ---------------------------------------------------------------------------------------------
FCPPT_RECORD_MAKE_LABEL(label_a);
FCPPT_RECORD_MAKE_LABEL(label_b);
FCPPT_RECORD_MAKE_LABEL(label_c);
using rec_ab = fcppt::record::object<fcppt::record::element<label_a, mo>, fcppt::record::element<label_b, mo2>>;
using rec_ba = fcppt::record::object<fcppt::record::element<label_b, mo2>, fcppt::record::element<label_a, mo>>;
using rec_aa = fcppt::record::object<fcppt::record::element<label_a, mo>, fcppt::record::element<label_b, mo>>;
using rec_c = fcppt::record::object<fcppt::record::element<label_c, mo>>;

WITNESS(c05_record_object_ctor_label_value, "record::object{label = rvalue, ...} moves every initialiser value into the record (in any argument order)")
{
  rec_ab r{label_a{} = probe::make<mo>(), label_b{} = probe::make<mo2>()};
  rec_ab s{label_b{} = probe::make<mo2>(), label_a{} = probe::make<mo>()};
  (void)r;
  (void)s;
}
WITNESS(c05_record_object_move, "record::object is move constructible and move assignable without copying an element")
{
  rec_ab r{probe::make<rec_ab>()};
  rec_ab s{std::move(r)};
  s = probe::make<rec_ab>();
}
WITNESS(c05_record_label_assign, "record::label::operator= moves an rvalue into the element initialiser")
{
  auto i{label_a{} = probe::make<mo>()};
  mo x{std::move(i.value())};
  (void)x;
}
WITNESS(c05_record_get, "record::get yields references to the element (no copy) that can be moved from")
{
  static_assert(std::is_same_v<decltype(fcppt::record::get<label_a>(probe::lvalue<rec_ab>())), mo &>);
  static_assert(std::is_same_v<decltype(fcppt::record::get<label_a>(probe::clvalue<rec_ab>())), mo const &>);
  mo x{std::move(fcppt::record::get<label_a>(probe::lvalue<rec_ab>()))};
  (void)x;
}
WITNESS(c05_record_set_rvalue, "record::set with an rvalue value move-assigns it into the record")
{
  fcppt::record::set<label_a>(probe::lvalue<rec_ab>(), probe::make<mo>());
  probe::lvalue<rec_ab>().set<label_b>(probe::make<mo2>());
}
WITNESS(c05_record_permute_rvalue, "record::permute of an rvalue record moves every element into the permuted record")
{
  rec_ba r{fcppt::record::permute<rec_ba>(probe::make<rec_ab>())};
  (void)r;
}
WITNESS(c05_record_multiply_disjoint_first, "record::multiply_disjoint moves the elements of an rvalue first record into the product")
{
  auto r{fcppt::record::multiply_disjoint(probe::make<rec_ab>(), probe::make<rec_c>())};
  (void)r;
}
WITNESS(c05_record_multiply_disjoint_second, "record::multiply_disjoint moves the elements of an rvalue second record into the product")
{
  auto r{fcppt::record::multiply_disjoint(probe::make<rec_c>(), probe::make<rec_ab>())};
  (void)r;
}
WITNESS(c05_record_map_rvalue, "record::map over an rvalue record hands every element to the function by move")
{
  auto r{fcppt::record::map(probe::make<rec_aa>(), [](mo x) { (void)x; return mo2{1}; })};
  mo2 y{std::move(fcppt::record::get<label_a>(r))};
  (void)y;
}
WITNESS(c05_record_map_rvalue_generic, "record::map over an rvalue record with heterogeneous move-only elements passes each element as an rvalue reference")
{
  (void)fcppt::record::map(probe::make<rec_ab>(), [](auto &&x) {
    static_assert(std::is_rvalue_reference_v<decltype(x)>);
    return std::remove_cvref_t<decltype(x)>{std::move(x)}; });
}
WITNESS(c05_record_init, "record::init moves every value produced by the function into the record")
{
  rec_aa r{fcppt::record::init<rec_aa>([](auto) { return mo{1}; })};
  (void)r;
}

// ---------------------------------------------------------------------------------------------
// tuple
// ---------------------------------------------------------------------------------------------
using tup = fcppt::tuple::object<mo, mo2>;
using tup_mm = fcppt::tuple::object<mo, mo>;

WITNESS(c05_tuple_object_ctor, "tuple::object(Args &&...) moves rvalue arguments in")
{
  tup t{probe::make<mo>(), probe::make<mo2>()};
  (void)t;
}
WITNESS(c05_tuple_object_move, "tuple::object is move constructible and move assignable without copying an element")
{
  tup t{probe::make<tup>()};
  tup u{std::move(t)};
  u = probe::make<tup>();
}
WITNESS(c05_tuple_make, "tuple::make moves rvalue arguments into the tuple")
{
  tup t{fcppt::tuple::make(probe::make<mo>(), probe::make<mo2>())};
  (void)t;
}
WITNESS(c05_tuple_map_rvalue, "tuple::map over an rvalue tuple hands every element to the function by move")
{
  fcppt::tuple::object<mo2, mo2> r{fcppt::tuple::map(probe::make<tup_mm>(), [](mo x) { (void)x; return mo2{1}; })};
  (void)r;
}
WITNESS(c05_tuple_map_lvalue, "tuple::map over an lvalue tuple passes elements as lvalue references (no copy, no steal)")
{
  // (mo const & for the non-const lvalue tuple too: tuple::detail::map_result computes the result
  // type by calling the function with an rvalue element, so a `mo &` parameter is rejected there)
  (void)fcppt::tuple::map(probe::lvalue<tup_mm>(), [](mo const &x) { (void)x; return mo2{1}; });
  (void)fcppt::tuple::map(probe::clvalue<tup_mm>(), [](mo const &x) { (void)x; return mo2{1}; });
}
WITNESS(c05_tuple_push_back_tuple, "tuple::push_back moves the elements of an rvalue tuple into the result")
{
  fcppt::tuple::object<mo, mo2, int> r{fcppt::tuple::push_back(probe::make<tup>(), 1)};
  (void)r;
}
WITNESS(c05_tuple_push_back_element, "tuple::push_back moves an rvalue new element into the result")
{
  fcppt::tuple::object<int, mo> r{fcppt::tuple::push_back(probe::make<fcppt::tuple::object<int>>(), probe::make<mo>())};
  (void)r;
}
WITNESS(c05_tuple_concat_first, "tuple::concat moves the elements of an rvalue first tuple into the result")
{
  fcppt::tuple::object<mo, mo2, int> r{fcppt::tuple::concat(probe::make<tup>(), probe::make<fcppt::tuple::object<int>>())};
  (void)r;
}
WITNESS(c05_tuple_concat_second, "tuple::concat moves the elements of every rvalue tuple into the result")
{
  fcppt::tuple::object<int, mo, mo2, mo, mo> r{fcppt::tuple::concat(probe::make<fcppt::tuple::object<int>>(), probe::make<tup>(), probe::make<tup_mm>())};
  (void)r;
}
WITNESS(c05_tuple_init, "tuple::init moves every value produced by the function into the tuple")
{
  tup_mm r{fcppt::tuple::init<tup_mm>([](auto) { return mo{1}; })};
  (void)r;
}
WITNESS(c05_tuple_apply_rvalue_nocopy, "tuple::apply over rvalue tuples copies no element inside the library (today the elements arrive as const lvalue references)")
{
  (void)fcppt::tuple::apply([](auto &&x, auto &&y) { (void)x; (void)y; return mo2{1}; }, probe::make<tup>(), probe::make<tup>());
}
// (tuple::get has no overload for rvalue tuples: get<I>(move_if_rvalue<Tuples>(t)) binds to the
// `object const &` overload, so a by-value / && continuation is what distinguishes move from copy)
WITNESS(c05_tuple_invoke_rvalue, "tuple::invoke on an rvalue tuple hands every element to the function by move")
{
  mo2 r{fcppt::tuple::invoke([](mo x, mo2 y) { (void)x; return y; }, probe::make<tup>())};
  (void)r;
}
WITNESS(c05_tuple_from_array_rvalue, "tuple::from_array moves every element of an rvalue array into the tuple")
{
  fcppt::tuple::object<mo, mo, mo> r{fcppt::tuple::from_array(probe::make<fcppt::array::object<mo, 3>>())};
  (void)r;
}
WITNESS(c05_tuple_get, "tuple::get yields references to the element (no copy) that can be moved from")
{
  static_assert(std::is_same_v<decltype(fcppt::tuple::get<0>(probe::lvalue<tup>())), mo &>);
  static_assert(std::is_same_v<decltype(fcppt::tuple::get<1>(probe::clvalue<tup>())), mo2 const &>);
  mo x{std::move(fcppt::tuple::get<0>(probe::lvalue<tup>()))};
  (void)x;
}

// ---------------------------------------------------------------------------------------------
// array
// ---------------------------------------------------------------------------------------------
using arr3 = fcppt::array::object<mo, 3>;
using arr2 = fcppt::array::object<mo, 2>;

WITNESS(c05_array_object_ctor, "array::object(Args &&...) moves rvalue arguments in")
{
  arr2 a{probe::make<mo>(), probe::make<mo>()};
  (void)a;
}
WITNESS(c05_array_object_move, "array::object is move constructible and move assignable without copying an element")
{
  arr3 a{probe::make<arr3>()};
  arr3 b{std::move(a)};
  b = probe::make<arr3>();
}
WITNESS(c05_array_make, "array::make moves rvalue arguments into the array")
{
  arr2 a{fcppt::array::make(probe::make<mo>(), probe::make<mo>())};
  (void)a;
}
WITNESS(c05_array_map_rvalue, "array::map over an rvalue array hands every element to the function by move")
{
  fcppt::array::object<mo2, 3> r{fcppt::array::map(probe::make<arr3>(), [](mo x) { (void)x; return mo2{1}; })};
  (void)r;
}
WITNESS(c05_array_map_lvalue, "array::map over an lvalue array passes elements as lvalue references (no copy, no steal)")
{
  (void)fcppt::array::map(probe::lvalue<arr3>(), [](mo &x) { (void)x; return mo2{1}; });
  (void)fcppt::array::map(probe::clvalue<arr3>(), [](mo const &x) { (void)x; return mo2{1}; });
}
WITNESS(c05_array_join_first, "array::join moves the elements of an rvalue first array into the result")
{
  arr3 r{fcppt::array::join(probe::make<arr3>())};
  (void)r;
}
WITNESS(c05_array_join_second, "array::join moves the elements of all rvalue arrays into the result")
{
  fcppt::array::object<mo, 5> r{fcppt::array::join(probe::make<arr3>(), probe::make<arr2>())};
  (void)r;
}
WITNESS(c05_array_join_third, "array::join of three rvalue arrays moves all elements into the result")
{
  fcppt::array::object<mo, 7> r{fcppt::array::join(probe::make<arr3>(), probe::make<arr2>(), probe::make<arr2>())};
  (void)r;
}
WITNESS(c05_array_from_range_rvalue, "array::from_range moves the elements of an rvalue range into the array")
{
  fcppt::optional::object<arr3> r{fcppt::array::from_range<3>(probe::make<std::vector<mo>>())};
  (void)r;
}
WITNESS(c05_array_push_back, "array::push_back moves the elements of an rvalue array and the rvalue new element into the result")
{
  arr3 r{fcppt::array::push_back(probe::make<arr2>(), probe::make<mo>())};
  (void)r;
}
WITNESS(c05_array_append, "array::append moves the elements of both rvalue arrays into the result")
{
  fcppt::array::object<mo, 5> r{fcppt::array::append(probe::make<arr3>(), probe::make<arr2>())};
  (void)r;
}
WITNESS(c05_array_init, "array::init moves every value produced by the function into the array")
{
  arr3 r{fcppt::array::init<arr3>([](auto) { return mo{1}; })};
  (void)r;
}
WITNESS(c05_array_apply_first, "array::apply hands the elements of an rvalue first array to the function by move")
{
  fcppt::array::object<mo2, 3> r{fcppt::array::apply([](mo x) { (void)x; return mo2{1}; }, probe::make<arr3>())};
  (void)r;
}
WITNESS(c05_array_apply_second, "array::apply hands the elements of all rvalue arrays to the function by move")
{
  (void)fcppt::array::apply([](mo x, mo2 y) { (void)x; return y; }, probe::make<arr3>(), probe::make<fcppt::array::object<mo2, 3>>());
}
WITNESS(c05_array_apply_mixed, "array::apply moves only out of rvalue arrays and passes lvalue arrays' elements by reference")
{
  (void)fcppt::array::apply([](mo &x, mo2 y) { (void)x; return y; }, probe::lvalue<arr3>(), probe::make<fcppt::array::object<mo2, 3>>());
}

// ---------------------------------------------------------------------------------------------
// container::grid
// ---------------------------------------------------------------------------------------------
using grid_mo = fcppt::container::grid::object<mo, 2>;
using grid_mo2 = fcppt::container::grid::object<mo2, 2>;

WITNESS(c05_grid_object_ctor_function, "grid::object(dim, function) moves every value produced by the function into the grid")
{
  grid_mo g{probe::clvalue<grid_mo::dim>(), [](grid_mo::pos const &) { return mo{1}; }};
  (void)g;
}
WITNESS(c05_grid_object_ctor_static_rows, "grid::object(static_row &&...) moves the elements of rvalue rows into the grid")
{
  grid_mo g{fcppt::container::grid::static_row(probe::make<mo>(), probe::make<mo>()), fcppt::container::grid::static_row(probe::make<mo>(), probe::make<mo>())};
  (void)g;
}
WITNESS(c05_grid_object_move, "grid::object is move constructible and move assignable without copying an element")
{
  grid_mo g{probe::make<grid_mo>()};
  grid_mo h{std::move(g)};
  h = probe::make<grid_mo>();
}
WITNESS(c05_grid_map_rvalue, "grid::map over an rvalue grid hands every element to the function by move")
{
  grid_mo2 r{fcppt::container::grid::map(probe::make<grid_mo>(), [](mo x) { (void)x; return mo2{1}; })};
  (void)r;
}
WITNESS(c05_grid_map_lvalue, "grid::map over an lvalue grid passes elements as lvalue references (no copy, no steal)")
{
  (void)fcppt::container::grid::map(probe::lvalue<grid_mo>(), [](mo &x) { (void)x; return mo2{1}; });
  (void)fcppt::container::grid::map(probe::clvalue<grid_mo>(), [](mo const &x) { (void)x; return mo2{1}; });
}
WITNESS(c05_grid_apply_first, "grid::apply hands the elements of an rvalue first grid to the function by move")
{
  grid_mo2 r{fcppt::container::grid::apply([](mo x) { (void)x; return mo2{1}; }, probe::make<grid_mo>())};
  (void)r;
}
WITNESS(c05_grid_apply_second, "grid::apply hands the elements of all rvalue grids to the function by move")
{
  (void)fcppt::container::grid::apply([](mo x, mo2 y) { (void)x; return y; }, probe::make<grid_mo>(), probe::make<grid_mo2>());
}
WITNESS(c05_grid_apply_mixed, "grid::apply moves only out of rvalue grids and passes lvalue grids' elements by reference")
{
  (void)fcppt::container::grid::apply([](mo &x, mo2 y) { (void)x; return y; }, probe::lvalue<grid_mo>(), probe::make<grid_mo2>());
}
WITNESS(c05_grid_resize_rvalue, "grid::resize of an rvalue grid moves the retained elements into the new grid and moves the initialiser's results in")
{
  grid_mo r{fcppt::container::grid::resize(probe::make<grid_mo>(), probe::clvalue<grid_mo::dim>(), [](grid_mo::pos const &) { return mo{1}; })};
  (void)r;
}
// grid::fill / grid::object(dim, value const &) copy the fill value by design and are not covered.

// ---------------------------------------------------------------------------------------------
// container::tree
// ---------------------------------------------------------------------------------------------
using tree_mo = fcppt::container::tree::object<mo>;
using tree_mo2 = fcppt::container::tree::object<mo2>;

WITNESS(c05_tree_object_ctor_value, "tree::object(T &&) moves the value in")
{
  tree_mo t{probe::make<mo>()};
  (void)t;
}
WITNESS(c05_tree_object_ctor_value_children, "tree::object(T &&, child_list &&) moves the value and the children in")
{
  tree_mo t{probe::make<mo>(), probe::make<tree_mo::child_list>()};
  (void)t;
}
WITNESS(c05_tree_object_move_ctor, "tree::object is move constructible without copying a value")
{
  tree_mo t{probe::make<tree_mo>()};
  tree_mo u{std::move(t)};
  (void)u;
}
WITNESS(c05_tree_object_move_assign, "tree::object is move assignable without copying a value")
{
  probe::lvalue<tree_mo>() = probe::make<tree_mo>();
}
WITNESS(c05_tree_value_set_rvalue, "tree::object::value(T &&) move-assigns the value; value() yields references (no copy)")
{
  probe::lvalue<tree_mo>().value(probe::make<mo>());
  static_assert(std::is_same_v<decltype(probe::lvalue<tree_mo>().value()), mo &>);
  static_assert(std::is_same_v<decltype(probe::clvalue<tree_mo>().value()), mo const &>);
}
WITNESS(c05_tree_push_back_value, "tree::object::push_back(T &&) moves the value into a new child")
{
  (void)probe::lvalue<tree_mo>().push_back(probe::make<mo>());
}
WITNESS(c05_tree_push_back_object, "tree::object::push_back(object &&) moves the subtree in")
{
  (void)probe::lvalue<tree_mo>().push_back(probe::make<tree_mo>());
}
WITNESS(c05_tree_push_front_value, "tree::object::push_front(T &&) moves the value into a new child")
{
  (void)probe::lvalue<tree_mo>().push_front(probe::make<mo>());
}
WITNESS(c05_tree_push_front_object, "tree::object::push_front(object &&) moves the subtree in")
{
  (void)probe::lvalue<tree_mo>().push_front(probe::make<tree_mo>());
}
WITNESS(c05_tree_insert_value, "tree::object::insert(iterator, T &&) moves the value into a new child")
{
  probe::lvalue<tree_mo>().insert(probe::lvalue<tree_mo>().begin(), probe::make<mo>());
}
WITNESS(c05_tree_insert_object, "tree::object::insert(iterator, object &&) moves the subtree in")
{
  probe::lvalue<tree_mo>().insert(probe::lvalue<tree_mo>().begin(), probe::make<tree_mo>());
}
WITNESS(c05_tree_release, "tree::object::release moves the child subtree out")
{
  tree_mo r{probe::lvalue<tree_mo>().release(probe::lvalue<tree_mo>().begin())};
  (void)r;
}
WITNESS(c05_tree_pop_back, "tree::object::pop_back moves the last child subtree out")
{
  fcppt::optional::object<tree_mo> r{probe::lvalue<tree_mo>().pop_back()};
  (void)r;
}
WITNESS(c05_tree_pop_front, "tree::object::pop_front moves the first child subtree out")
{
  fcppt::optional::object<tree_mo> r{probe::lvalue<tree_mo>().pop_front()};
  (void)r;
}
WITNESS(c05_tree_swap_sort_erase_clear, "tree::object::swap / sort / erase / clear need no copy of a value")
{
  probe::lvalue<tree_mo>().swap(probe::lvalue<tree_mo>());
  probe::lvalue<tree_mo>().sort();
  probe::lvalue<tree_mo>().sort([](mo const &, mo const &) { return false; });
  probe::lvalue<tree_mo>().erase(probe::lvalue<tree_mo>().begin());
  probe::lvalue<tree_mo>().clear();
}
WITNESS(c05_tree_map_rvalue, "tree::map of an rvalue tree copies no value (by design the source is taken by const reference, so values arrive as const references) and moves results into the new tree")
{
  tree_mo2 r{fcppt::container::tree::map<tree_mo2>(probe::make<tree_mo>(), [](mo const &x) { (void)x; return mo2{1}; })};
  (void)r;
}

// ---------------------------------------------------------------------------------------------
// options: a move-only parser with a move-only result element. Its members are only declared
// (syntax-only TU). Every combinator below must move, never copy, both the parser object it is
// given as an rvalue and the result values flowing through parse().
//
// Not covered: options::flag / option / argument / switch_ with a move-only value type. Their
// parse() is const and returns COPIES of the stored active/inactive/default value (flag_impl.hpp,
// option_impl.hpp) resp. needs extraction from a string and operator<<; a copyable Type is required
// by design of these leaf parsers.
// ---------------------------------------------------------------------------------------------
template <typename Label, typename Type>
struct mo_parser
{
  mo_parser() = delete;
  mo_parser(mo_parser &&) noexcept = default;
  mo_parser &operator=(mo_parser &&) noexcept = default;
  mo_parser(mo_parser const &) = delete;
  mo_parser &operator=(mo_parser const &) = delete;
  ~mo_parser() = default;
  using result_type = fcppt::record::object<fcppt::record::element<Label, Type>>;
  [[nodiscard]] fcppt::options::parse_result<result_type>
  parse(fcppt::options::state &&, fcppt::options::parse_context const &) const;
  [[nodiscard]] fcppt::options::flag_name_set flag_names() const;
  [[nodiscard]] fcppt::options::option_name_set option_names() const;
  [[nodiscard]] fcppt::string usage() const;
};
FCPPT_RECORD_MAKE_LABEL(opt_label_a);
FCPPT_RECORD_MAKE_LABEL(opt_label_b);
FCPPT_RECORD_MAKE_LABEL(opt_label_c);
FCPPT_RECORD_MAKE_LABEL(opt_label_sum);
FCPPT_RECORD_MAKE_LABEL(opt_label_cmd);
using parser_a = mo_parser<opt_label_a, mo>;
using parser_b = mo_parser<opt_label_b, mo2>;
using parser_c = mo_parser<opt_label_c, mo>;

WITNESS(c05_options_state_with_value, "options::state_with_value(state &&, T &&) moves the value in and exposes it by reference")
{
  fcppt::options::state_with_value<parser_a::result_type> s{probe::make<fcppt::options::state>(), probe::make<parser_a::result_type>()};
  parser_a::result_type r{std::move(s.value())};
  (void)r;
}
WITNESS(c05_options_make_success, "options::make_success moves an rvalue result into the options::result")
{
  fcppt::options::result<parser_a::result_type> r{fcppt::options::make_success(probe::make<parser_a::result_type>())};
  (void)r;
}
WITNESS(c05_options_make_left_right, "options::make_left / make_right move an rvalue result into the strong typedef")
{
  fcppt::options::left<parser_a::result_type> l{fcppt::options::make_left(probe::make<parser_a::result_type>())};
  fcppt::options::right<parser_a::result_type> r{fcppt::options::make_right(probe::make<parser_a::result_type>())};
  (void)l;
  (void)r;
}
WITNESS(c05_options_parse, "options::parse moves the parser's result record into the returned options::result (never copies a result element)")
{
  fcppt::options::result<parser_a::result_type> r{fcppt::options::parse(probe::clvalue<parser_a>(), probe::clvalue<fcppt::args_vector>())};
  (void)r;
}
WITNESS(c05_options_many_ctor, "options::many(Parser &&) / make_many move the rvalue parser in")
{
  fcppt::options::many<parser_a> m{probe::make<parser_a>()};
  fcppt::options::many<parser_a> n{fcppt::options::make_many(probe::make<parser_a>())};
  fcppt::options::many<parser_a> o{std::move(m)};
  (void)n;
  (void)o;
}
WITNESS(c05_options_many_parse, "options::many::parse moves every inner result element into the accumulated vectors and moves the accumulated record out")
{
  using many_type = fcppt::options::many<parser_a>;
  static_assert(std::is_same_v<many_type::result_type, fcppt::record::object<fcppt::record::element<opt_label_a, std::vector<mo>>>>);
  fcppt::options::parse_result<many_type::result_type> r{probe::clvalue<many_type>().parse(probe::make<fcppt::options::state>(), probe::clvalue<fcppt::options::parse_context>())};
  (void)r;
}
WITNESS(c05_options_optional_ctor, "options::optional(Parser &&) / make_optional move the rvalue parser in")
{
  fcppt::options::optional<parser_a> m{probe::make<parser_a>()};
  fcppt::options::optional<parser_a> n{fcppt::options::make_optional(probe::make<parser_a>())};
  (void)m;
  (void)n;
}
WITNESS(c05_options_optional_parse, "options::optional::parse moves every inner result element into its optional")
{
  using opt_type = fcppt::options::optional<parser_a>;
  static_assert(std::is_same_v<opt_type::result_type, fcppt::record::object<fcppt::record::element<opt_label_a, fcppt::optional::object<mo>>>>);
  fcppt::options::parse_result<opt_type::result_type> r{probe::clvalue<opt_type>().parse(probe::make<fcppt::options::state>(), probe::clvalue<fcppt::options::parse_context>())};
  (void)r;
}
WITNESS(c05_options_product_ctor, "options::product(Left &&, Right &&) moves the rvalue left and right parsers in")
{
  fcppt::options::product<parser_a, parser_b> p{probe::make<parser_a>(), probe::make<parser_b>()};
  (void)p;
}
WITNESS(c05_options_apply_parsers, "options::apply moves all rvalue parsers into the nested product")
{
  auto p{fcppt::options::apply(probe::make<parser_a>(), probe::make<parser_b>(), probe::make<parser_c>())};
  static_assert(std::is_same_v<decltype(p), fcppt::options::product<parser_a, fcppt::options::product<parser_b, parser_c>>>);
  auto q{fcppt::options::apply(probe::make<parser_a>())};
  (void)q;
}
WITNESS(c05_options_product_parse, "options::product::parse moves the elements of the left and right results into the combined record")
{
  using prod_type = fcppt::options::product<parser_a, parser_b>;
  fcppt::options::parse_result<prod_type::result_type> r{probe::clvalue<prod_type>().parse(probe::make<fcppt::options::state>(), probe::clvalue<fcppt::options::parse_context>())};
  (void)r;
}
WITNESS(c05_options_sum_ctor, "options::sum(Left &&, Right &&) / make_sum move the rvalue parsers in")
{
  fcppt::options::sum<opt_label_sum, parser_a, parser_b> s{probe::make<parser_a>(), probe::make<parser_b>()};
  auto t{fcppt::options::make_sum<opt_label_sum>(probe::make<parser_a>(), probe::make<parser_b>())};
  (void)s;
  (void)t;
}
WITNESS(c05_options_sum_parse, "options::sum::parse moves the left or right result into the variant")
{
  using sum_type = fcppt::options::sum<opt_label_sum, parser_a, parser_b>;
  fcppt::options::parse_result<sum_type::result_type> r{probe::clvalue<sum_type>().parse(probe::make<fcppt::options::state>(), probe::clvalue<fcppt::options::parse_context>())};
  (void)r;
}
WITNESS(c05_options_make_base, "options::make_base moves the rvalue parser into the type-erased parser, whose parse() moves (permutes) the result elements")
{
  fcppt::options::base_unique_ptr<parser_a::result_type> b{fcppt::options::make_base<parser_a::result_type>(probe::make<parser_a>())};
  fcppt::options::parse_result<parser_a::result_type> r{b->parse(probe::make<fcppt::options::state>(), probe::clvalue<fcppt::options::parse_context>())};
  (void)r;
}
WITNESS(c05_options_sub_command_ctor, "options::make_sub_command moves the rvalue parser in")
{
  auto s{fcppt::options::make_sub_command<opt_label_cmd>(probe::make<fcppt::string>(), probe::make<parser_a>(), probe::make<fcppt::options::optional_help_text>())};
  auto t{std::move(s)};
  (void)t;
}
WITNESS(c05_options_commands_ctor, "options::make_commands moves the rvalue options parser and the rvalue sub commands in")
{
  auto c{fcppt::options::make_commands(probe::make<parser_b>(), probe::make<fcppt::options::sub_command<opt_label_cmd, parser_a>>())};
  (void)c;
}
WITNESS(c05_options_commands_parse, "options::commands::parse moves the options result and the sub command's result into the combined record")
{
  using cmd_type = fcppt::options::commands<parser_b, fcppt::options::sub_command<opt_label_cmd, parser_a>>;
  fcppt::options::parse_result<cmd_type::result_type> r{probe::clvalue<cmd_type>().parse(probe::make<fcppt::options::state>(), probe::clvalue<fcppt::options::parse_context>())};
  (void)r;
}

// ---------------------------------------------------------------------------------------------
// parse: a move-only parser type with a move-only result type (members only declared; syntax-only
// TU). Every combinator must move the rvalue parser objects it is given, and its parse() must move
// the result values it plumbs through.
//
// Not covered: parse::convert_const (returns a copy of its stored result on every parse, by
// design); the leaf parsers (char_, string, int_, ...) have fixed copyable result types.
// ---------------------------------------------------------------------------------------------
template <typename Result>
struct mo_p : private fcppt::parse::tag
{
  mo_p() = delete;
  mo_p(mo_p &&) noexcept = default;
  mo_p &operator=(mo_p &&) noexcept = default;
  mo_p(mo_p const &) = delete;
  mo_p &operator=(mo_p const &) = delete;
  ~mo_p() = default;
  using result_type = Result;
  template <typename Ch, typename Skipper>
  [[nodiscard]] fcppt::parse::result<Ch, result_type>
  parse(fcppt::reference<fcppt::parse::basic_stream<Ch>>, Skipper const &) const;
};
struct mo3 // a third move-only result type
{
  mo3() = delete;
  explicit mo3(int) {}
  mo3(mo3 &&) noexcept = default;
  mo3 &operator=(mo3 &&) noexcept = default;
  mo3(mo3 const &) = delete;
  mo3 &operator=(mo3 const &) = delete;
  ~mo3() = default;
};
using p_mo = mo_p<mo>;
using p_mo2 = mo_p<mo2>;
using p_mo3 = mo_p<mo3>;
using p_unit = mo_p<fcppt::unit>;
struct from_mo
{
  explicit from_mo(mo &&) {}
  from_mo(from_mo &&) noexcept = default;
  from_mo(from_mo const &) = delete;
};
struct agg
{
  mo a;
  mo2 b;
};

WITNESS(c05_parse_make_success, "parse::make_success moves an rvalue result into the parse::result")
{
  fcppt::parse::result<char, mo> r{fcppt::parse::make_success<char>(probe::make<mo>())};
  (void)r;
}
WITNESS(c05_parse_sequence_ctor, "operator>> / parse::sequence(Left &&, Right &&) moves the rvalue left and right parsers in")
{
  fcppt::parse::sequence<p_mo, p_mo2> s{probe::make<p_mo>() >> probe::make<p_mo2>()};
  (void)s;
}
WITNESS(c05_parse_sequence_ctor_nested, "operator>> moves an rvalue sequence parser into a longer sequence")
{
  auto s{probe::make<p_mo>() >> probe::make<p_mo2>() >> probe::make<p_mo3>()};
  auto t{std::move(s)};
  (void)t;
}
WITNESS(c05_parse_sequence_parse_pair, "sequence::parse moves the left and right results into the result tuple")
{
  using seq = fcppt::parse::sequence<p_mo, p_mo2>;
  static_assert(std::is_same_v<seq::result_type, fcppt::tuple::object<mo, mo2>>);
  fcppt::parse::result<char, seq::result_type> r{fcppt::parse::parse_string(probe::clvalue<seq>(), probe::make<std::string>())};
  (void)r;
}
WITNESS(c05_parse_sequence_parse_triple, "sequence::parse moves the elements of a left tuple result and the right result into the flattened tuple")
{
  using seq = fcppt::parse::sequence<fcppt::parse::sequence<p_mo, p_mo2>, p_mo3>;
  static_assert(std::is_same_v<seq::result_type, fcppt::tuple::object<mo, mo2, mo3>>);
  (void)fcppt::parse::parse_string(probe::clvalue<seq>(), probe::make<std::string>());
}
WITNESS(c05_parse_sequence_parse_unit_left, "sequence::parse with a unit left result moves the right result through")
{
  using seq = fcppt::parse::sequence<p_unit, p_mo>;
  static_assert(std::is_same_v<seq::result_type, mo>);
  (void)fcppt::parse::parse_string(probe::clvalue<seq>(), probe::make<std::string>());
}
WITNESS(c05_parse_sequence_parse_unit_right, "sequence::parse with a unit right result moves the left result through")
{
  using seq = fcppt::parse::sequence<p_mo, p_unit>;
  static_assert(std::is_same_v<seq::result_type, mo>);
  (void)fcppt::parse::parse_string(probe::clvalue<seq>(), probe::make<std::string>());
}
WITNESS(c05_parse_alternative_ctor, "operator| / parse::alternative(Left &&, Right &&) moves the rvalue parsers in")
{
  fcppt::parse::alternative<p_mo, p_mo2> a{probe::make<p_mo>() | probe::make<p_mo2>()};
  auto b{std::move(a)};
  (void)b;
}
WITNESS(c05_parse_alternative_parse_same, "alternative::parse with equal result types moves the chosen result through")
{
  using alt = fcppt::parse::alternative<p_mo, p_mo>;
  static_assert(std::is_same_v<alt::result_type, mo>);
  (void)fcppt::parse::parse_string(probe::clvalue<alt>(), probe::make<std::string>());
}
WITNESS(c05_parse_alternative_parse_variant, "alternative::parse with different result types moves the chosen result into the variant")
{
  using alt = fcppt::parse::alternative<p_mo, p_mo2>;
  static_assert(std::is_same_v<alt::result_type, fcppt::variant::object<mo, mo2>>);
  (void)fcppt::parse::parse_string(probe::clvalue<alt>(), probe::make<std::string>());
}
WITNESS(c05_parse_alternative_parse_nested, "alternative::parse moves the held value of a left variant result into the wider variant")
{
  using alt = fcppt::parse::alternative<fcppt::parse::alternative<p_mo, p_mo2>, p_mo3>;
  static_assert(std::is_same_v<alt::result_type, fcppt::variant::object<mo, mo2, mo3>>);
  (void)fcppt::parse::parse_string(probe::clvalue<alt>(), probe::make<std::string>());
}
WITNESS(c05_parse_repetition_ctor, "operator* / parse::repetition(Parser &&) moves the rvalue parser in")
{
  fcppt::parse::repetition<p_mo> r{*probe::make<p_mo>()};
  auto s{std::move(r)};
  (void)s;
}
WITNESS(c05_parse_repetition_parse, "repetition::parse moves every element result into the result vector and moves the vector out")
{
  using rep = fcppt::parse::repetition<p_mo>;
  static_assert(std::is_same_v<rep::result_type, std::vector<mo>>);
  (void)fcppt::parse::parse_string(probe::clvalue<rep>(), probe::make<std::string>());
}
WITNESS(c05_parse_repetition_plus_ctor, "operator+ / parse::repetition_plus(Parser &&) moves the rvalue parser in")
{
  fcppt::parse::repetition_plus<p_mo> r{+probe::make<p_mo>()};
  auto s{std::move(r)};
  (void)s;
}
WITNESS(c05_parse_repetition_plus_parse, "repetition_plus::parse moves the first element result and the remaining element results into the result vector")
{
  using rep = fcppt::parse::repetition_plus<p_mo>;
  static_assert(std::is_same_v<rep::result_type, std::vector<mo>>);
  (void)fcppt::parse::parse_string(probe::clvalue<rep>(), probe::make<std::string>());
}
WITNESS(c05_parse_optional_ctor, "operator- / parse::optional(Parser &&) moves the rvalue parser in")
{
  fcppt::parse::optional<p_mo> r{-probe::make<p_mo>()};
  auto s{std::move(r)};
  (void)s;
}
WITNESS(c05_parse_optional_parse, "optional::parse moves the inner result into the optional")
{
  using opt = fcppt::parse::optional<p_mo>;
  static_assert(std::is_same_v<opt::result_type, fcppt::optional::object<mo>>);
  (void)fcppt::parse::parse_string(probe::clvalue<opt>(), probe::make<std::string>());
}
WITNESS(c05_parse_convert_ctor, "parse::convert(Parser &&, function &&) / make_convert move the rvalue parser in")
{
  fcppt::parse::convert<p_mo, mo2> c{fcppt::parse::make_convert(probe::make<p_mo>(), [](mo &&x) { mo y{std::move(x)}; (void)y; return mo2{1}; })};
  fcppt::parse::convert<p_mo, mo2> d{probe::make<p_mo>(), fcppt::parse::convert<p_mo, mo2>::function_type{[](mo &&) { return mo2{1}; }}};
  (void)c;
  (void)d;
}
WITNESS(c05_parse_convert_parse, "convert::parse hands the inner result to the conversion function as an rvalue and moves the converted value out")
{
  using conv = fcppt::parse::convert<p_mo, mo2>;
  static_assert(std::is_same_v<conv::result_type, mo2>);
  (void)fcppt::parse::parse_string(probe::clvalue<conv>(), probe::make<std::string>());
}
WITNESS(c05_parse_convert_if_parse, "convert_if::parse hands the inner result to the conversion function as an rvalue and moves the converted value out")
{
  auto c{fcppt::parse::make_convert_if(probe::make<p_mo>(), [](mo &&) { return probe::make<fcppt::parse::result<char, mo2>>(); })};
  static_assert(std::is_same_v<fcppt::parse::result_of<decltype(c)>, mo2>);
  (void)fcppt::parse::parse_string(c, probe::make<std::string>());
}
WITNESS(c05_parse_construct, "parse::construct<Result> moves the rvalue parser in and its parse() moves the inner result into Result's constructor")
{
  auto c{fcppt::parse::construct<from_mo>(probe::make<p_mo>())};
  static_assert(std::is_same_v<fcppt::parse::result_of<decltype(c)>, from_mo>);
  (void)fcppt::parse::parse_string(c, probe::make<std::string>());
}
WITNESS(c05_parse_as_struct, "parse::as_struct<Result> moves the rvalue parser in and its parse() moves every tuple element into the struct")
{
  auto c{fcppt::parse::as_struct<agg>(probe::make<p_mo>() >> probe::make<p_mo2>())};
  static_assert(std::is_same_v<fcppt::parse::result_of<decltype(c)>, agg>);
  (void)fcppt::parse::parse_string(c, probe::make<std::string>());
}
WITNESS(c05_parse_separator_ctor, "parse::separator(Inner &&, Sep &&) moves the rvalue parsers in")
{
  fcppt::parse::separator<p_mo, p_unit> s{probe::make<p_mo>(), probe::make<p_unit>()};
  auto t{std::move(s)};
  (void)t;
}
WITNESS(c05_parse_separator_parse, "separator::parse moves the first and the remaining element results into the result vector")
{
  using sep = fcppt::parse::separator<p_mo, p_unit>;
  static_assert(std::is_same_v<sep::result_type, std::vector<mo>>);
  (void)fcppt::parse::parse_string(probe::clvalue<sep>(), probe::make<std::string>());
}
WITNESS(c05_parse_list_ctor, "parse::list(Start &&, Inner &&, Sep &&, End &&) moves the rvalue parsers in")
{
  fcppt::parse::list<p_unit, p_mo, p_unit, p_unit> l{probe::make<p_unit>(), probe::make<p_mo>(), probe::make<p_unit>(), probe::make<p_unit>()};
  auto m{std::move(l)};
  (void)m;
}
WITNESS(c05_parse_named, "parse::named moves the rvalue parser in and its parse() moves the inner result through")
{
  fcppt::parse::named<char, p_mo> n{probe::make<p_mo>(), probe::make<std::string>()};
  (void)fcppt::parse::parse_string(n, probe::make<std::string>());
}
WITNESS(c05_parse_lexeme, "parse::make_lexeme moves the rvalue parser in and its parse() moves the inner result through")
{
  auto l{fcppt::parse::make_lexeme(probe::make<p_mo>())};
  (void)fcppt::parse::parse_string(l, probe::make<std::string>());
}
WITNESS(c05_parse_fatal, "parse::make_fatal moves the rvalue parser in and its parse() moves the inner result through")
{
  auto f{fcppt::parse::make_fatal(probe::make<p_mo>())};
  (void)fcppt::parse::parse_string(f, probe::make<std::string>());
}
WITNESS(c05_parse_ignore, "parse::make_ignore moves the rvalue parser in and its parse() consumes the inner result without copying it")
{
  auto i{fcppt::parse::make_ignore(probe::make<p_mo>())};
  (void)fcppt::parse::parse_string(i, probe::make<std::string>());
}
WITNESS(c05_parse_recursive, "parse::make_recursive moves the rvalue parser in and its parse() moves the inner result into fcppt::recursive")
{
  auto r{fcppt::parse::make_recursive(probe::make<p_mo>())};
  static_assert(std::is_same_v<fcppt::parse::result_of<decltype(r)>, fcppt::recursive<mo>>);
  (void)fcppt::parse::parse_string(r, probe::make<std::string>());
}
WITNESS(c05_parse_make_base, "parse::make_base moves the rvalue parser into the type-erased parser, whose parse() moves the result through")
{
  fcppt::parse::base_unique_ptr<mo, char, fcppt::parse::skipper::epsilon> b{fcppt::parse::make_base<char, fcppt::parse::skipper::epsilon>(probe::make<p_mo>())};
  fcppt::parse::result<char, mo> r{b->parse(probe::make<fcppt::reference<fcppt::parse::basic_stream<char>>>(), fcppt::parse::skipper::epsilon{})};
  (void)r;
}
WITNESS(c05_parse_grammar_make_base, "parse::grammar::make_base moves the rvalue parser into the type-erased parser")
{
  using grammar = fcppt::parse::grammar<mo, char, fcppt::parse::skipper::epsilon>;
  grammar::base_type<mo> b{grammar::make_base(probe::make<p_mo>())};
  (void)b;
}
WITNESS(c05_parse_phrase_parse_string, "parse::phrase_parse_string moves the parser's result into the returned parse::result")
{
  fcppt::parse::result<char, mo> r{fcppt::parse::phrase_parse_string(probe::clvalue<p_mo>(), probe::make<std::string>(), fcppt::parse::skipper::epsilon{})};
  (void)r;
}
