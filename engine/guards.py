"""Engine G: guard discharge for partial operations (DESIGN.md §4.2), prover P1 (structured
dominance over the type-resolved AST) and P3 (justification table).

The walker carries the set of boolean facts known to hold at each expression:
  if / ?: / && / || / early exit / loop conditions / FCPPT_ASSERT-style branches into noreturn,
  and the conditional invokers fcppt::cond(c, f, g) and optional::make_if(c, f) whose lambda
  arguments are walked under c resp. !c (their "invoked only under c" summaries are re-derived
  from the callee bodies on every run, see check_invoker_summaries()).
A partial operation site is discharged when the fact it requires about the SAME object path is
in that set (no intervening write to the object), or the site is justified in
rules/justified_sites.json by (function, operation, object path) -- never by line.
"""
import json
import re
import os

from . import facts as F
from . import plumbing as P
from . import terms as T

EXIT = "EXIT"

NONMUTATING = {
    "get_unsafe", "get_success_unsafe", "get_failure_unsafe", "get", "has_value", "has_success",
    "has_failure", "begin", "end", "cbegin", "cend", "rbegin", "rend", "data", "front", "back",
    "operator*", "operator->", "operator[]", "value", "impl", "at", "size", "empty", "find",
    "children", "parent", "get_position", "args", "storage", "base", "lower_bound", "upper_bound",
    "equal_range", "data_end", "read_data", "write_data", "read_size", "write_size", "c_str",
}

COND_INVOKERS = {
    # callee -> (index of bool arg, [(index of function arg, polarity under which it is invoked)])
    "fcppt::cond": (0, [(1, True), (2, False)]),
    "fcppt::optional::make_if": (0, [(1, True)]),
}

ITER_TYPES = ("__normal_iterator", "_List_iterator", "_List_const_iterator", "_Rb_tree_iterator",
              "_Rb_tree_const_iterator", "_Deque_iterator", "_Node_iterator", "_Node_const_iterator",
              "reverse_iterator", "move_iterator", "_Fwd_list_iterator", "_Fwd_list_const_iterator")

STD_SEQ = ("std::vector", "std::deque", "std::list", "std::basic_string", "std::basic_string_view",
           "std::array", "std::forward_list", "std::map", "std::set", "std::span")


class Ctx:
    def __init__(self, db, fn, on_site):
        self.db = db
        self.fn = fn
        self.unit = fn["_unit"]
        self.on_site = on_site
        self.defs = {}      # local var id -> init node
        self.lambdas = {}   # local var id -> lambda node
        self.written = None


def fn_written_vars(unit, fn):
    """decl ids that are (possibly) modified somewhere in the function after initialisation"""
    w = set()
    for n in F.walk([fn.get("body")] + [i.get("init") for i in fn.get("inits", [])]):
        for p in writes_of_node(unit, n):
            w |= _written_roots_of_path(p)
    return w


def _written_roots_of_path(p):
    """variables a write to the object path p may modify. A freshly constructed temporary (`T{a, b}` handed to a function by
    forwarding reference) is its own object: writing to it does not write the variables it was built from."""
    if isinstance(p, tuple) and p and p[0] == "new":
        return set()
    return T.roots(p)


def root_of(unit, n):
    n = T.unwrap(unit, n)
    while n is not None:
        k = n.get("k")
        if k == "ref":
            return n["id"]
        if k == "this":
            return -1
        if k == "member":
            n = T.unwrap(unit, n.get("base"))
        elif k == "call" and n.get("recv") is not None and _short(unit, n) in NONMUTATING:
            n = T.unwrap(unit, n["recv"])
        elif k == "unop" and n.get("op") in ("*", "&"):
            n = T.unwrap(unit, n["e"])
        elif k == "subscript":
            n = T.unwrap(unit, n["base"])
        else:
            return None
    return None


def _short(unit, n):
    d = T.callee_decl(unit, n)
    if d is None:
        return None
    q = F.strip_targs(d["qn"])
    return q.split("::")[-1]


def path_of(unit, n):
    """term of the written object (its root must be a variable or this)"""
    n0 = T.unwrap(unit, n)
    if n0 is not None and n0.get("k") in ("call", "construct") and n0.get("vc") is None:
        return None      # a prvalue: a temporary of its own; writing to it does not write the variables it was computed from
    t = T.norm(unit, n)
    if T.roots(t):
        return t
    return None


def writes_of_node(unit, n):
    """object paths (terms) written by this single node (not its children)"""
    k = n.get("k")
    out = set()

    def root_of(unit, x):  # shadow: paths instead of roots
        return path_of(unit, x)
    if k in ("assign", "compound_assign"):
        r = root_of(unit, n["l"])
        if r is not None:
            out.add(r)
    elif k == "unop" and n.get("op") in ("++", "--"):
        r = root_of(unit, n["e"])
        if r is not None:
            out.add(r)
    elif k == "call":
        d = T.callee_decl(unit, n)
        if d is None:
            return out
        qn = F.strip_targs(d["qn"])
        if qn in T.TRANSPARENT_CALLS:
            return out
        short = qn.split("::")[-1]
        if n.get("recv") is not None and not d.get("const", True) and not d.get("static"):
            if short not in NONMUTATING:
                r = root_of(unit, n["recv"])
                if r is not None:
                    out.add(r)
        prefs = d.get("prefs", [])
        for i, a in enumerate(n.get("args", [])):
            pr = prefs[i] if i < len(prefs) else "val"
            if pr == "lref" or pr == "rref":
                r = root_of(unit, a)
                if r is not None:
                    out.add(r)
    elif k == "construct":
        d = T.callee_decl(unit, n)
        prefs = d.get("prefs", []) if d else []
        for i, a in enumerate(n.get("args", [])):
            pr = prefs[i] if i < len(prefs) else "val"
            if pr in ("lref", "rref"):
                r = root_of(unit, a)
                if r is not None:
                    out.add(r)
    return out


def writes(unit, node):
    out = set()
    for n in F.walk(node):
        out |= writes_of_node(unit, n)
    return out


def contains(term, sub):
    if term == sub:
        return True
    if isinstance(term, tuple):
        for x in term:
            if isinstance(x, tuple) and contains(x, sub):
                return True
    return False


def kill(facts, paths):
    if not paths or facts == EXIT:
        return facts
    return tuple(f for f in facts if not any(contains(f[0], p) for p in paths))


def written_roots(paths):
    out = set()
    for p in paths:
        if p[0] == "v":
            out.add(p[1])
        elif p[0] == "this":
            out.add(-1)
    return out


def is_noreturn_call(unit, n):
    n = T.unwrap(unit, n)
    if n is None or n.get("k") != "call":
        return False
    d = T.callee_decl(unit, n)
    if d is None:
        return False
    if d.get("noreturn"):
        return True
    return F.strip_targs(d["qn"]) in ("std::terminate", "std::abort", "fcppt::absurd", "std::exit",
                                      "fcppt::assert_::detail::terminate", "std::unreachable")


# --------------------------------------------------------------------------------------------

def assume(cx, facts, n, pol):
    unit = cx.unit
    n = T.unwrap(unit, n)
    if n is None:
        return facts
    k = n.get("k")
    if k == "unop" and n.get("op") == "!":
        return assume(cx, facts, n["e"], not pol)
    if k == "binop" and n.get("op") == "&&" and pol:
        return assume(cx, assume(cx, facts, n["l"], True), n["r"], True)
    if k == "binop" and n.get("op") == "||" and not pol:
        return assume(cx, assume(cx, facts, n["l"], False), n["r"], False)
    if k == "call":
        qn = T.callee_qn(unit, n)
        if qn == "fcppt::not_" and n.get("args"):
            return assume(cx, facts, n["args"][0], not pol)
    if k == "icast" and n.get("ck") in ("IntegralToBoolean", "PointerToBoolean"):
        return facts + ((("nz", T.norm(unit, n["e"])), pol),)
    if k == "ref" and n["id"] in cx.defs and n["id"] not in cx.written:
        facts = assume(cx, facts, cx.defs[n["id"]], pol)
    if k == "binop" and n.get("op") in ("==", "!=", "<", ">", "<=", ">="):
        l, r = T.norm(unit, n["l"]), T.norm(unit, n["r"])
        op = n["op"]
        return facts + ((("b", op, l, r), pol),)
    if k == "call" and n.get("opcall") in ("==", "!=", "<", ">", "<=", ">="):
        ops = ([n["recv"]] if n.get("recv") is not None else []) + n.get("args", [])
        if len(ops) == 2:
            return facts + ((("b", n["opcall"], T.norm(unit, ops[0]), T.norm(unit, ops[1])), pol),)
    return facts + ((T.norm(unit, n), pol),)


def walk_fn(db, fn, on_site):
    """Walk a top-level function (and, inline, the lambdas it contains)."""
    cx = Ctx(db, fn, on_site)
    cx.written = fn_written_vars(fn["_unit"], fn)
    facts = ()
    for i in fn.get("inits", []):
        walk_expr(cx, i.get("init"), facts, fn)
    walk_stmt(cx, fn.get("body"), facts, fn)


def has_break(node):
    for n in F.walk(node, into_lambdas=False):
        if n.get("k") == "break":
            return True
    return False


def walk_stmt(cx, s, facts, cur):
    if s is None:
        return facts
    unit = cx.unit
    k = s.get("k")
    if k == "compound" or k == "attributed":
        for c in s.get("ch", []):
            facts = walk_stmt(cx, c, facts, cur)
            if facts == EXIT:
                return EXIT
        return facts
    if k == "decl":
        for v in s.get("ch", []):
            if v.get("k") != "var":
                continue
            init = v.get("init")
            if init is not None:
                walk_expr(cx, init, facts, cur)
                facts = kill(facts, writes(unit, init))
                cx.defs[v["id"]] = init
                li = T.unwrap(unit, init)
                if li is not None and li.get("k") == "lambda":
                    cx.lambdas[v["id"]] = li
                # a variable initialised from an engaged optional is engaged
                facts = facts + fresh_facts(cx, ("v", v["id"], v.get("name")), init)
        return facts
    if k == "if":
        if s.get("init") is not None:
            facts = walk_stmt(cx, s["init"], facts, cur)
        if s.get("condvar") is not None:
            facts = walk_stmt(cx, s["condvar"], facts, cur)
        cond = s.get("cond")
        walk_expr(cx, cond, facts, cur)
        base = kill(facts, writes(unit, cond))
        tf = assume(cx, base, cond, True)
        ef = assume(cx, base, cond, False)
        cn = T.unwrap(unit, cond)
        if cn is not None and "c" in cn and cn.get("k") != "call":
            # constant condition (if constexpr or folded): only one branch is live
            if cn["c"] != "0":
                return walk_stmt(cx, s.get("then"), base, cur)
            return walk_stmt(cx, s.get("else"), base, cur) if s.get("else") is not None else base
        t = walk_stmt(cx, s.get("then"), tf, cur)
        e = walk_stmt(cx, s.get("else"), ef, cur) if s.get("else") is not None else ef
        w = writes(unit, s.get("then")) | (writes(unit, s.get("else")) if s.get("else") is not None else set())
        if t == EXIT and e == EXIT:
            return EXIT
        if t == EXIT:
            return kill(e, set()) if e != EXIT else EXIT
        if e == EXIT:
            return t
        return kill(base, w)
    if k == "return":
        walk_expr(cx, s.get("e"), facts, cur)
        return EXIT
    if k in ("break", "continue"):
        return EXIT
    if k == "while":
        w = writes(unit, s)
        facts = kill(facts, w)
        walk_expr(cx, s["cond"], facts, cur)
        walk_stmt(cx, s["body"], assume(cx, facts, s["cond"], True), cur)
        if has_break(s["body"]):
            return facts
        return assume(cx, facts, s["cond"], False)
    if k == "for":
        facts = walk_stmt(cx, s.get("init"), facts, cur) if s.get("init") is not None and s["init"].get("k") in ("decl", "compound") else (walk_expr(cx, s.get("init"), facts, cur) or facts)
        w = writes(unit, [s.get("cond"), s.get("inc"), s.get("body")])
        facts = kill(facts, w)
        bf = facts
        if s.get("cond") is not None:
            walk_expr(cx, s["cond"], facts, cur)
            bf = assume(cx, facts, s["cond"], True)
        walk_stmt(cx, s.get("body"), bf, cur)
        if s.get("inc") is not None:
            walk_expr(cx, s["inc"], kill(bf, writes(unit, s.get("body"))), cur)
        if s.get("cond") is not None and not has_break(s.get("body")):
            return assume(cx, facts, s["cond"], False)
        return facts
    if k == "do":
        w = writes(unit, s)
        facts = kill(facts, w)
        walk_stmt(cx, s["body"], facts, cur)
        walk_expr(cx, s["cond"], facts, cur)
        if has_break(s["body"]):
            return facts
        return assume(cx, facts, s["cond"], False)
    if k == "range_for":
        walk_expr(cx, s.get("range"), facts, cur)
        w = writes(unit, s.get("body"))
        facts = kill(facts, w | writes(unit, s.get("range")))
        walk_stmt(cx, s.get("body"), facts, cur)
        return facts
    if k == "switch":
        walk_expr(cx, s.get("cond"), facts, cur)
        pre = kill(facts, writes(unit, s.get("cond")))
        facts = kill(facts, writes(unit, s))
        body = s.get("body")
        # a case label reached only by the jump (the statement before it exits: break/return/throw) starts with
        # the facts before the switch; one that can be fallen into starts with those minus every write in the switch
        state = EXIT
        for n in (body.get("ch", []) if body and body.get("k") == "compound" else [body]):
            if n is not None and n.get("k") in ("case", "default"):
                state = walk_stmt(cx, n, pre if state == EXIT else facts, cur)
            else:
                state = walk_stmt(cx, n, facts if state == EXIT else state, cur)
        return facts
    if k in ("case", "default"):
        if s.get("value") is not None:
            pass
        return walk_stmt(cx, s.get("sub"), facts, cur)
    if k == "try":
        w = writes(unit, s)
        facts = kill(facts, w)
        r = walk_stmt(cx, s.get("body"), facts, cur)
        allexit = r == EXIT
        for h in s.get("handlers", []):
            hr = walk_stmt(cx, h.get("body"), facts, cur)
            allexit = allexit and hr == EXIT
        return EXIT if allexit else facts
    if k == "null":
        return facts
    if k and k.startswith("stmt:"):
        for c in F.children(s):
            walk_stmt(cx, c, facts, cur)
        return facts
    # expression statement
    walk_expr(cx, s, facts, cur)
    if s.get("k") == "throw" or is_noreturn_call(unit, s):
        return EXIT
    facts = kill(facts, writes(unit, s))
    n0 = T.unwrap(unit, s)
    if n0 is not None and n0.get("k") == "call" and n0.get("recv") is not None and _short(unit, n0) in ("push_back", "emplace_back", "push_front", "emplace_front"):
        qn0 = T.callee_qn(unit, n0)
        facts = facts + ((("c", qn0.rsplit("::", 1)[0] + "::empty", T.norm(unit, n0["recv"]), (), ()), False),)
    # X = <engaged>  establishes has_value(X)
    n = T.unwrap(unit, s)
    if n is not None and n.get("k") == "call" and n.get("opcall") == "=" and n.get("recv") is not None and n.get("args"):
        facts = facts + fresh_facts(cx, T.norm(unit, n["recv"]), n["args"][0])
    return facts


def fresh_facts(cx, target_term, init):
    """facts implied for a variable/object initialised or assigned from `init`"""
    unit = cx.unit
    n = T.unwrap(unit, init)
    if n is None:
        return ()
    if n.get("k") == "construct" and n.get("cls") == "fcppt::optional::object":
        args = n.get("args", [])
        if len(args) == 1 and n.get("ctor") == "other":
            a = T.unwrap(unit, args[0])
            # converting constructor from a value (not from another optional) => engaged
            at = unit.ty(a.get("t")) if a is not None else ""
            if a is not None and not at.startswith("fcppt::optional::object<") and not at.startswith("const fcppt::optional::object<"):
                return ((("c", "fcppt::optional::object::has_value", target_term, (), ()), True),)
    if n.get("k") == "call" and T.callee_qn(unit, n) == "fcppt::optional::make":
        return ((("c", "fcppt::optional::object::has_value", target_term, (), ()), True),)
    return ()


def lambda_of(cx, n):
    n = T.unwrap(cx.unit, n)
    if n is None:
        return None
    if n.get("k") == "lambda":
        return n
    if n.get("k") == "ref" and n["id"] in cx.lambdas:
        return cx.lambdas[n["id"]]
    return None


def walk_lambda(cx, lam, facts, immediate):
    """walk all call-operator bodies of a lambda under `facts`"""
    if not immediate:
        # keep only facts about objects never written in the enclosing function
        facts = tuple(f for f in facts if not (T.roots(f[0]) & cx.written))
    for c in lam.get("captures", []):
        if c.get("init") is not None:
            walk_expr(cx, c["init"], facts, None)
    for op in lam.get("ops", []):
        r = walk_stmt(cx, op.get("body"), facts, op)


def walk_expr(cx, n, facts, cur):
    if n is None:
        return
    if isinstance(n, list):
        for x in n:
            walk_expr(cx, x, facts, cur)
        return
    unit = cx.unit
    k = n.get("k")
    if k in ("compound", "decl", "if", "return", "while", "for", "do", "range_for", "switch", "try"):
        walk_stmt(cx, n, facts, cur)
        return
    cx.on_site(cx, n, facts, cur)
    if k == "cond":
        walk_expr(cx, n["c_"], facts, cur)
        cn = T.unwrap(unit, n["c_"])
        walk_expr(cx, n["then"], assume(cx, facts, n["c_"], True), cur)
        walk_expr(cx, n["else"], assume(cx, facts, n["c_"], False), cur)
        return
    if k == "binop" and n.get("op") == "&&":
        walk_expr(cx, n["l"], facts, cur)
        walk_expr(cx, n["r"], assume(cx, facts, n["l"], True), cur)
        return
    if k == "binop" and n.get("op") == "||":
        walk_expr(cx, n["l"], facts, cur)
        walk_expr(cx, n["r"], assume(cx, facts, n["l"], False), cur)
        return
    if k == "lambda":
        walk_lambda(cx, n, facts, immediate=False)
        return
    if k == "call":
        qn = T.callee_qn(unit, n)
        if qn in COND_INVOKERS:
            bi, fs = COND_INVOKERS[qn]
            args = n.get("args", [])
            if bi < len(args):
                walk_expr(cx, args[bi], facts, cur)
                done = {bi}
                for (fi, pol) in fs:
                    if fi < len(args):
                        lam = lambda_of(cx, args[fi])
                        if lam is not None:
                            walk_lambda(cx, lam, assume(cx, facts, args[bi], pol), immediate=True)
                            done.add(fi)
                for i, a in enumerate(args):
                    if i not in done:
                        walk_expr(cx, a, facts, cur)
                return
        if n.get("recv") is not None:
            walk_expr(cx, n["recv"], facts, cur)
        if n.get("fn") is not None:
            walk_expr(cx, n["fn"], facts, cur)
        for a in n.get("args", []):
            la = T.unwrap(unit, a)
            if la is not None and la.get("k") == "lambda":
                cx.on_site(cx, la, facts, cur)
                walk_lambda(cx, la, facts, immediate=True)
            else:
                walk_expr(cx, a, facts, cur)
        return
    for c in F.children(n):
        walk_expr(cx, c, facts, cur)


# --------------------------------------------------------------------------------------------
# sites

def fact_true(facts, term):
    return (term, True) in facts


def fact_false(facts, term):
    return (term, False) in facts


def cmp_fact(facts, op, a, b):
    """Is `a op b` known?  Knows the negations and mirrored forms."""
    neg = {"==": "!=", "!=": "==", "<": ">=", ">=": "<", ">": "<=", "<=": ">"}
    mir = {"==": "==", "!=": "!=", "<": ">", ">": "<", "<=": ">=", ">=": "<="}
    for (t, pol) in facts:
        if not (isinstance(t, tuple) and t and t[0] == "b" and len(t) == 4):
            continue
        o, l, r = t[1], t[2], t[3]
        if o not in neg:
            continue
        if not pol:
            o = neg[o]
        if l == a and r == b and implies_cmp(o, op):
            return True
        if l == b and r == a and implies_cmp(mir[o], op):
            return True
    return False


def implies_cmp(have, want):
    if have == want:
        return True
    table = {("<", "<="): True, ("<", "!="): True, (">", ">="): True, (">", "!="): True,
             ("==", "<="): True, ("==", ">="): True}
    return table.get((have, want), False)


def requirement(cx, n, facts, cur=None):
    """If node n is a partial-operation site: (op name, object term, discharged?, required text).
    Returns None for non-sites."""
    unit = cx.unit
    k = n.get("k")
    if k == "call":
        d = T.callee_decl(unit, n)
        if d is None:
            return None
        qn = F.strip_targs(d["qn"])
        recv = n.get("recv")
        if qn == "fcppt::optional::object::get_unsafe":
            R = T.norm(unit, recv)
            ok = (fact_true(facts, ("c", "fcppt::optional::object::has_value", R, (), ()))
                  or any(pol and isinstance(t, tuple) and t[0] == "c" and t[1] == "fcppt::optional::detail::has_value_all" and R in t[3]
                         for (t, pol) in facts)
                  or engaged_term(R))
            return ("optional::get_unsafe", R, ok, "has_value()")
        if qn == "fcppt::either::object::get_success_unsafe":
            R = T.norm(unit, recv)
            ok = (fact_true(facts, ("c", "fcppt::either::object::has_success", R, (), ()))
                  or fact_false(facts, ("c", "fcppt::either::object::has_failure", R, (), ())))
            return ("either::get_success_unsafe", R, ok, "has_success()")
        if qn == "fcppt::either::object::get_failure_unsafe":
            R = T.norm(unit, recv)
            ok = (fact_false(facts, ("c", "fcppt::either::object::has_success", R, (), ()))
                  or fact_true(facts, ("c", "fcppt::either::object::has_failure", R, (), ())))
            return ("either::get_failure_unsafe", R, ok, "!has_success()")
        if qn in ("fcppt::variant::get_unsafe", "fcppt::variant::object::get_unsafe"):
            obj = recv if recv is not None else (n.get("args") or [None])[0]
            R = T.norm(unit, obj)
            ty = tuple(d.get("targs", []))[:1]
            ok = any(pol and isinstance(t, tuple) and t[0] == "c" and t[1] == "fcppt::variant::holds_type" and t[3] == (R,) and t[4][:1] == ty
                     for (t, pol) in facts)
            return ("variant::get_unsafe", R, ok, "holds_type<T>()")
        if qn == "fcppt::container::grid::object::get_unsafe" and n.get("args"):
            Gt = T.norm(unit, recv)
            Pt = T.norm(unit, n["args"][0])
            ok = fact_true(facts, ("c", "fcppt::container::grid::in_range", None, (Gt, Pt), ()))
            how = "in_range(grid, pos)"
            if not ok and cur is not None and cur.get("lambda"):
                # per-position callback idiom: the position is the lambda's own parameter, handed in by
                # grid::object(dim, function) / pos-range iteration for positions inside that grid
                pids = set(p["id"] for p in cur.get("params", []))
                if T.roots(Pt) and T.roots(Pt) <= pids:
                    ok = True
            return ("grid::get_unsafe", ("b", "[]", Gt, Pt), ok, "in_range(grid, pos)")
        if qn == "std::optional::operator*" or qn == "std::optional::operator->":
            R = T.norm(unit, recv)
            ok = (fact_true(facts, ("c", "std::optional::has_value", R, (), ())) or
                  fact_true(facts, ("c", "std::optional::operator bool", R, (), ())))
            return ("std::optional::operator*", R, ok, "has_value()")
        short = qn.split("::")[-1]
        if any(qn.startswith(s + "::") for s in STD_SEQ):
            if short in ("front", "back", "pop_back", "pop_front"):
                R = T.norm(unit, recv)
                ok = (fact_false(facts, ("c", qn.rsplit("::", 1)[0] + "::empty", R, (), ()))
                      or nonempty_by_size(facts, R))
                return ("std::%s" % short, R, ok, "!empty()")
            if short == "operator[]" and not qn.startswith("std::map") and not qn.startswith("std::array"):
                R = T.norm(unit, recv)
                idx = T.norm(unit, n["args"][0]) if n.get("args") else None
                ok = index_in_bounds(facts, idx, R, qn.rsplit("::", 1)[0])
                return ("std::operator[]", ("b", "[]", R, idx), ok, "index < size()")
        if n.get("opcall") in ("*", "->") and recv is not None and not n.get("args"):
            rt = unit.ty(T.unwrap(unit, recv).get("t")) or ""
            if any(it in rt for it in ITER_TYPES):
                R = T.norm(unit, recv)
                ok = iter_not_end(cx, facts, R, recv)
                return ("iterator deref", R, ok, "it != end()")
        if n.get("opcall") == "++" and recv is not None:
            rt = unit.ty(T.unwrap(unit, recv).get("t")) or ""
            if any(it in rt for it in ITER_TYPES) and "insert_iterator" not in rt and "ostream" not in rt and "istream" not in rt:
                R = T.norm(unit, recv)
                ok = iter_not_end(cx, facts, R, recv)
                return ("iterator increment", R, ok, "it != end()")
        if qn in ("std::prev",) and n.get("args"):
            a0 = T.unwrap(unit, n["args"][0])
            if a0 is not None and a0.get("k") == "call" and (_short(unit, a0) in ("end", "cend")) and a0.get("recv") is not None:
                C = T.norm(unit, a0["recv"])
                ok = nonempty(cx, facts, C)
                return ("std::prev(end())", C, ok, "!empty()")
        return None
    if k == "binop" and n.get("op") in ("/", "%"):
        lt = unit.ty(n.get("t")) or ""
        if is_integer_type(lt):
            r = T.unwrap(unit, n["r"])
            R = T.norm(unit, n["r"])
            ok = nonzero(cx, facts, R, r)
            return ("integer %s" % n["op"], R, ok, "divisor != 0")
    if k == "compound_assign" and n.get("op") in ("/=", "%="):
        lt = unit.ty(n.get("t")) or ""
        if is_integer_type(lt):
            r = T.unwrap(unit, n["r"])
            R = T.norm(unit, n["r"])
            ok = nonzero(cx, facts, R, r)
            return ("integer %s" % n["op"], R, ok, "divisor != 0")
    if k in ("binop", "compound_assign") and n.get("op") in ("<<", ">>", "<<=", ">>="):
        lt = unit.ty(n.get("t")) or ""
        if is_integer_type(lt):
            r = T.unwrap(unit, n["r"])
            R = T.norm(unit, n["r"])
            width = int_width(unit.ty(T.unwrap(unit, n["l"]).get("t")) if n.get("k") == "binop" else lt)
            # the left operand is promoted: width of the *result* type
            width = int_width(lt) or width
            ok = shift_ok(cx, facts, R, r, width)
            # a shift whose result IS the function's result must be computed in (at least) the result's width: shifting a
            # narrower operand loses the high bits / is undefined although the exact result is representable
            top = F.top_function(cx.fn) if cx.fn is not None else None
            rw = int_width((unit.ty(top.get("ret")) or "").replace("const ", "")) if top is not None else None
            if rw and width and width < rw and n.get("k") == "binop" and n.get("op") == "<<":
                return ("shift << computed in %d bits for a %d-bit result" % (width, rw), R, False, "operand as wide as the result")
            return ("shift %s" % n["op"], R, ok, "amount < %s" % width)
    if k == "unop" and n.get("op") == "*":
        # raw pointers used as container iterators (std::string_view, raw_vector): a local
        # initialised from X.begin()/cbegin()/std::next(...) of a container
        e = T.unwrap(unit, n["e"])
        if e is not None and e.get("k") == "ref" and e["id"] in cx.defs:
            d = T.unwrap(unit, cx.defs[e["id"]])
            if d is not None and d.get("k") == "call" and _short(unit, d) in ("begin", "cbegin") and d.get("recv") is not None:
                rt = unit.ty(T.unwrap(unit, d["recv"]).get("t")) or ""
                if "basic_string_view" in rt or "basic_string" in rt or "vector" in rt or "array" in rt:
                    R = T.norm(unit, e)
                    ok = iter_not_end(cx, facts, R, e)
                    return ("iterator deref", R, ok, "it != end()")
        return None
    return None


def engaged_term(R):
    return isinstance(R, tuple) and R and ((R[0] == "new" and R[1] == "fcppt::optional::object" and len(R[2]) == 1)
                                           or (R[0] == "c" and R[1] == "fcppt::optional::make"))


def is_integer_type(t):
    t = t.replace("const ", "").strip()
    return t in ("int", "unsigned int", "long", "unsigned long", "short", "unsigned short", "char",
                 "signed char", "unsigned char", "long long", "unsigned long long", "bool", "wchar_t",
                 "char16_t", "char32_t", "char8_t", "__int128", "unsigned __int128")


def int_width(t):
    if not t:
        return None
    t = t.replace("const ", "").strip()
    return {"int": 32, "unsigned int": 32, "long": 64, "unsigned long": 64, "short": 16,
            "unsigned short": 16, "char": 8, "signed char": 8, "unsigned char": 8,
            "long long": 64, "unsigned long long": 64, "bool": 1, "wchar_t": 32}.get(t)


def const_of(r):
    if r is not None and "c" in r:
        try:
            return int(r["c"])
        except ValueError:
            return None
    return None


def nonzero(cx, facts, R, rnode):
    c = const_of(rnode)
    if c is not None:
        return c != 0
    if cmp_fact(facts, "!=", R, ("k", "0")):
        return True
    for (t, pol) in facts:
        if isinstance(t, tuple) and t[0] == "b" and len(t) == 4:
            o, l, r = t[1], t[2], t[3]
            if not pol:
                o = {"==": "!=", "!=": "==", "<": ">=", ">=": "<", ">": "<=", "<=": ">"}.get(o)
            other = r if l == R else (l if r == R else None)
            if other is None or not is_zero_term(cx, other):
                continue
            if o == "!=" or (o == ">" and l == R) or (o == "<" and r == R):
                return True
    if fact_true(facts, ("nz", R)):
        return True
    if fact_false(facts, ("c", "fcppt::math::is_zero", None, (R,), ())):
        return True
    return False


def zero_terms(cx, rnode):
    """terms in the facts that are known to denote zero: literal<T>(0), T{0}, static_cast<T>(0)"""
    out = [("k", "0")]
    return out


def is_zero_term(cx, t, depth=0):
    if not isinstance(t, tuple) or depth > 3:
        return False
    if t == ("k", "0"):
        return True
    if t[0] == "v" and t[1] in cx.defs and t[1] not in cx.written:
        return is_zero_term(cx, T.norm(cx.unit, cx.defs[t[1]]), depth + 1)
    if t[0] == "new" and len(t[2]) == 1:
        return is_zero_term(cx, t[2][0], depth + 1)
    if t[0] == "c" and t[1] == "fcppt::literal" and t[3] == (("k", "0"),):
        return True
    if t[0] == "cast" and t[2] == ("k", "0"):
        return True
    return False


def shift_ok(cx, facts, R, rnode, width):
    c = const_of(rnode)
    if c is not None and width is not None:
        return 0 <= c < width
    # amount = x % K with K <= width
    n = rnode
    if n is not None and n.get("k") == "binop" and n.get("op") == "%":
        kc = const_of(T.unwrap(cx.unit, n["r"]))
        if kc is not None and width is not None and 0 < kc <= width:
            return True
    if width is not None:
        for (t, pol) in facts:
            if isinstance(t, tuple) and t[0] == "b" and len(t) == 4:
                o, l, r = t[1], t[2], t[3]
                if not pol:
                    o = {"<": ">=", ">=": "<", ">": "<=", "<=": ">"}.get(o, None)
                if o is None:
                    continue
                if l == R and r[0] == "k" and str(r[1]).lstrip("-").isdigit():
                    v = int(r[1])
                    if (o == "<" and v <= width) or (o == "<=" and v < width):
                        return True
    return False


def nonempty_by_size(facts, R):
    return False


def nonempty(cx, facts, C):
    for (t, pol) in facts:
        if isinstance(t, tuple) and t[0] == "c" and isinstance(t[1], str) and t[1].endswith("::empty") and t[2] == C and not pol:
            return True
    return False


def is_size_of(t, R):
    return (isinstance(t, tuple) and t[0] == "c" and isinstance(t[1], str) and t[1].split("::")[-1] == "size"
            and (t[2] == R or (t[2] is None and t[3] == (R,))))


def index_in_bounds(facts, idx, R, cls):
    if idx is None:
        return False
    if idx == ("k", "0"):
        for (t, pol) in facts:
            if isinstance(t, tuple) and t[0] == "c" and isinstance(t[1], str) and t[1].endswith("::empty") and t[2] == R and not pol:
                return True
    for (t, pol) in facts:
        if not (isinstance(t, tuple) and t[0] == "b" and len(t) == 4):
            continue
        o, l, r = t[1], t[2], t[3]
        if not pol:
            o = {"==": "!=", "!=": "==", "<": ">=", ">=": "<", ">": "<=", "<=": ">"}.get(o)
        if o == "<" and l == idx and is_size_of(r, R):
            return True
        if o == ">" and r == idx and is_size_of(l, R):
            return True
        # !R.empty() and constant index 0
        if idx == ("k", "0") and isinstance(t, tuple) and False:
            pass
        # size(R) == K and constant index < K
        if o == "==" and idx[0] == "k" and str(idx[1]).isdigit():
            for a, b in ((l, r), (r, l)):
                if is_size_of(a, R) and b[0] == "k" and str(b[1]).isdigit() and int(idx[1]) < int(b[1]):
                    return True
    return False


def is_end_node(cx, n, depth=0):
    unit = cx.unit
    n = T.unwrap(unit, n)
    if n is None or depth > 3:
        return False
    if n.get("k") == "call":
        s = _short(unit, n)
        if s in ("end", "cend"):
            return True
    if n.get("k") == "construct" and len(n.get("args", [])) == 1:
        return is_end_node(cx, n["args"][0], depth + 1)
    if n.get("k") == "ref" and n["id"] in cx.defs and n["id"] not in cx.written:
        return is_end_node(cx, cx.defs[n["id"]], depth + 1)
    if n.get("k") == "member" and n.get("name", "").rstrip("_") in ("end", "last"):
        return True
    return False


def iter_not_end(cx, facts, R, recv):
    """it != <end expr> known, for the iterator term R"""
    unit = cx.unit
    if isinstance(R, tuple) and R[0] == "c" and isinstance(R[1], str):
        short = R[1].split("::")[-1]
        if short in ("insert", "emplace", "emplace_hint", "insert_or_assign", "try_emplace"):
            return True   # std contract: returns an iterator to the (inserted) element
        base, karg = None, None
        if short == "operator+" and R[2] is not None and len(R[3]) == 1:
            base, karg = R[2], R[3][0]
        elif short == "operator+" and R[2] is None and len(R[3]) == 2:
            base, karg = R[3][0], R[3][1]
        if base is not None and base[0] == "c" and str(base[1]).split("::")[-1] in ("begin", "cbegin") and base[2] is not None:
            C = base[2]
            k = karg
            while isinstance(k, tuple) and k[0] == "c" and k[1] in ("fcppt::cast::to_signed", "fcppt::cast::size") and len(k[3]) == 1:
                k = k[3][0]
            while isinstance(k, tuple) and k[0] == "cast":
                k = k[2]
            if index_in_bounds(facts, k, C, ""):
                return True
    if isinstance(R, tuple) and R[0] == "m" and R[2] == "first" and isinstance(R[1], tuple) and R[1][0] == "v" and R[1][1] in cx.defs:
        d = T.norm(unit, cx.defs[R[1][1]])
        if d[0] == "c" and str(d[1]).split("::")[-1] in ("insert", "emplace", "try_emplace", "insert_or_assign"):
            return True   # pair<iterator,bool> of a map/set insert: .first is valid
    for (t, pol) in facts:
        if not (isinstance(t, tuple) and t[0] == "b" and len(t) == 4):
            continue
        o, l, r = t[1], t[2], t[3]
        if o == "==" and not pol or o == "!=" and pol:
            other = None
            if l == R:
                other = r
            elif r == R:
                other = l
            if other is None:
                continue
            if term_is_end(cx, other):
                return True
    return False


def term_is_end(cx, t, depth=0):
    if not isinstance(t, tuple) or depth > 3:
        return False
    if t[0] == "c" and isinstance(t[1], str) and t[1].split("::")[-1] in ("end", "cend"):
        return True
    if t[0] == "new" and len(t[2]) == 1:
        return term_is_end(cx, t[2][0], depth + 1)
    if t[0] == "v" and t[1] in cx.defs and t[1] not in cx.written:
        return is_end_node(cx, cx.defs[t[1]])
    if t[0] == "m" and str(t[2]).rstrip("_") in ("end", "last"):
        return True
    return False


# --------------------------------------------------------------------------------------------

def partial_by_contract(fn):
    """Functions whose own contract is partial: requirement belongs to the caller."""
    top = F.top_function(fn)
    name = F.strip_targs(top["qn"])
    short = name.split("::")[-1]
    if "unsafe" in short:
        return "name contains 'unsafe'"
    rec = F.strip_targs(top.get("record") or "")
    if rec == "fcppt::iterator::base":
        return "iterator protocol member (fcppt::iterator::base forwards to the derived iterator's contract)"
    if short in ("dereference", "increment", "decrement", "advance", "distance_to", "equal") and rec.endswith("iterator"):
        return "iterator protocol member (contract of fcppt::iterator::base: valid, dereferenceable position)"
    if rec in FCPPT_STD_LIKE and short in ("front", "back", "pop_back", "pop_front", "operator[]", "erase", "release", "insert"):
        return "member of an fcppt container mirroring the std contract (non-empty / valid iterator)"
    return None


FCPPT_STD_LIKE = {"fcppt::container::raw_vector::object", "fcppt::container::tree::object",
                  "fcppt::container::dynamic_array", "fcppt::container::buffer::object",
                  "fcppt::intrusive::list", "fcppt::container::bitfield::object",
                  "fcppt::math::detail::static_storage", "fcppt::enum_::array", "fcppt::array::object"}


def _unused():
    return None


def load_justified():
    p = os.path.join(P.VERIF, "rules", "justified_sites.json")
    if not os.path.exists(p):
        return []
    with open(p) as f:
        return json.load(f)["entries"]


def _nolocalidx(t):
    """canonical local names carry their declaration index (r_v3, r_lv1); an unrelated local added in front shifts it"""
    return re.sub(r"\br_(l*)v\d+\b", r"r_\1v#", t or "")


def justified(entries, fname, op, objtext):
    for e in entries:
        if e["function"] == fname and e["op"] == op and (e.get("object") in (None, "*") or _nolocalidx(e["object"]) == _nolocalidx(objtext)):
            e["_used"] = True
            return e
    return None


def scan(db, functions, want=None):
    """Run G over `functions`. Returns list of site dicts:
       {fn, top, op, object, ok, required, site, facts}"""
    sites = []

    def on_site(cx, n, facts, cur):
        r = requirement(cx, n, facts, cur)
        if r is None:
            return
        op, obj, ok, req = r
        if want is not None and not want(op):
            return
        sites.append({"fn": cx.fn, "op": op, "object": T.show(obj), "ok": bool(ok), "required": req,
                      "site": cx.unit.loc(n.get("loc")), "macro": n.get("macro"),
                      "facts": [("" if pol else "!") + T.show(t) for (t, pol) in (facts if facts != EXIT else ())][:12]})

    for fn in functions:
        if not fn["_unit"].file_of(fn["primary"]).startswith("libs/"):
            continue  # driver / witness stubs are not library code
        walk_fn(db, fn, on_site)
    return sites
