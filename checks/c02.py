"""C02 PEG semantics of fcppt.parse, per combinator, relative to opaque sub-parsers
(DESIGN.md §6 C02, rule ids from specs/C02-protocol.json).

Every combinator's parse()/skip() is interpreted by engine S with OPAQUE stub sub-parsers and
skippers (declared, never defined): calls to them are named events whose success / fatal flags
are free Boolean atoms. All consistent assignments are enumerated; the rules are predicates
over the resulting path set (events in order, branch literals, outcome provenance). By
structural induction over the grammar (hypothesis = the stub contract) the local facts give the
ordered-choice semantics for every grammar and every input.
"""
import re

from engine import facts as F
from engine import load
from engine import sx

LEVEL = "other"
# canonical names (engine/facts.py): parse(state, skipper) -- parameters by position, never by spelling
STATE, SKIPPER = "r_a0", "r_a1"

INLINE = ("fcppt::optional::", "fcppt::either::", "fcppt::variant::", "fcppt::cond", "fcppt::monad::", "fcppt::const_",
          "fcppt::detail::const_", "fcppt::parse::make_success", "fcppt::parse::skipper::run", "fcppt::parse::skipper::make_",
          "fcppt::parse::get_position", "fcppt::parse::set_position", "fcppt::parse::get_char", "fcppt::parse::detail::consume_remaining",
          "fcppt::parse::operator+", "fcppt::parse::phrase_parse", "fcppt::parse::parse", "fcppt::parse::grammar_parse",
          "fcppt::parse::detail::check_bad", "fcppt::io::get", "fcppt::parse::skipper::epsilon::skip", "fcppt::parse::get_char_error", "fcppt::parse::detail::expected")
PURE = ("fcppt::parse::detail::make_alternative", "fcppt::parse::detail::sequence_result", "fcppt::parse::error::get",
        "fcppt::parse::basic_char_set::chars", "fcppt::container::contains", "fcppt::parse::detail::flatten_tuples")


# leaf parsers that stay opaque events when a derived parser (int_, uint, float_) is checked against its grammar
LEAF_PARSERS = ("fcppt::parse::basic_literal::parse", "fcppt::parse::basic_char_set::parse", "fcppt::parse::basic_char::parse",
                "fcppt::parse::basic_string::parse", "fcppt::parse::separator::parse")


def hook_is_fatal(it, recv, args, d, unit, n):
    return fatal_of(it, recv)


def fatal_of(it, e):
    """fatal flag of an error value as a term"""
    if isinstance(e, tuple) and e and e[0] == "new" and e[1].startswith("fcppt::parse::error"):
        a = e[3]
        if len(a) == 2:
            return sx.TRUE
        if len(a) == 1:
            if isinstance(a[0], tuple) and a[0] and (a[0][0] in ("ev", "app", "sym") and "error" in str(a[0])[:0]):
                return ("app", "is_fatal", (a[0],))
            return sx.FALSE
    return ("app", "is_fatal", (e,))


class PV:
    """view of one path in the event vocabulary of the protocol"""

    def __init__(self, p):
        self.p = p
        self.tok = []
        for i, e in enumerate(p.events, 1):
            name = e[0]
            short = name.split("<")[0].split("::")[-1]
            if name.startswith("fcppt::parse::basic_stream::get_position") or short == "get_position":
                self.tok.append(("SAVE", i))
            elif name.startswith("fcppt::parse::basic_stream::set_position") or short == "set_position":
                src = e[1][-1]
                self.tok.append(("RESTORE", src[1] if isinstance(src, tuple) and src[0] == "ev" else None, i))
            elif "stub_skipper::skip" in name or (short == "skip" and "stub" in name):
                self.tok.append(("SKIP", i, sx.show(e[1][0])))
            elif "stub::parse" in name or (short == "parse" and "stub" in name):
                obj = sx.show(e[1][0])
                sk = sx.show(e[1][-1]) if len(e[1]) >= 3 else ""
                self.tok.append(("SUB", i, obj.replace("this.", ""), sk))
            elif name.split("<")[0] in LEAF_PARSERS:
                self.tok.append(("SUB", i, sx.show(e[1][0]), sx.show(e[1][-1]) if len(e[1]) >= 3 else ""))
            elif short == "get_char" or name.startswith("fcppt::parse::basic_stream::get_char"):
                self.tok.append(("GETCH", i))
            elif short == "operator()" and e[1] and "convert_" in sx.show(e[1][0]):
                self.tok.append(("USER", i, [sx.show(a) for a in e[1][1:]]))
            elif short == "call":
                self.tok.append(("USER", i, [sx.show(a) for a in e[1][1:]]))
            elif short == "push_back":
                self.tok.append(("PUSH", i, sx.show(e[1][-1])))
            elif name == "UNSAFE":
                self.tok.append(("UNSAFE", i))
        self.dec = {}
        for a, b in p.decisions:
            self.dec[sx.show(a)] = b

    def kinds(self):
        return [t[0] for t in self.tok]

    def subs(self, member=None):
        return [t for t in self.tok if t[0] == "SUB" and (member is None or t[2] == member)]

    def ok(self, evid):
        """success flag decided for sub-call event #evid (None if undecided)"""
        for k, v in self.dec.items():
            if k.startswith("has_success(#%d:" % evid):
                return v
        return None

    def fatal(self, evid):
        for k, v in self.dec.items():
            if k.startswith("is_fatal(failure_payload(#%d:" % evid):
                return v
        return None

    def truncated(self):
        return self.p.outcome[0] == "truncated"

    def outcome(self):
        """('success'|'failure'|'passthrough'|'other', payload value)"""
        o = self.p.outcome
        if o[0] != "return":
            return (o[0], None)
        v = o[1]
        if isinstance(v, tuple) and v and v[0] == "new" and v[1] == sx.EITH:
            return (v[2], v[3][0])
        if isinstance(v, tuple) and v and v[0] == "ev":
            return ("passthrough", v)
        return ("other", v)

    def succeeded(self):
        k, v = self.outcome()
        if k == "success":
            return True
        if k == "failure":
            return False
        if k == "passthrough":
            return self.ok(v[1])
        return None

    def failure_fatalness(self, it=None):
        """fatal flag of the failure outcome: True / False / ('same', evid) / None"""
        k, v = self.outcome()
        if k == "passthrough":
            return ("same", v[1])
        if k != "failure":
            return None
        return self._fatalness(v)

    def _fatalness(self, v):
        if isinstance(v, tuple) and v and v[0] == "app" and v[1] == "failure_payload" and v[2][0][0] == "ev":
            return ("same", v[2][0][1])
        if isinstance(v, tuple) and v and v[0] == "new" and "parse::error" in v[1]:
            if len(v[3]) == 2:
                return True
            if len(v[3]) == 1 and isinstance(v[3][0], tuple) and v[3][0] and v[3][0][0] == "new" and "parse::error" in v[3][0][1]:
                return self._fatalness(v[3][0])
            if len(v[3]) == 1 and isinstance(v[3][0], tuple) and v[3][0][0] == "ev":
                # copy/move of the result of an opaque call producing an error (e.g. operator+)
                return self._fatalness(v[3][0])
            return False
        if isinstance(v, tuple) and v and v[0] == "ev":
            e = self.p.events[v[1] - 1]
            if "operator+" in e[0]:
                fs = [self._fatalness(a) for a in e[1]]
                if any(f is True for f in fs):
                    return True
                sames = [f for f in fs if isinstance(f, tuple)]
                if len(sames) == 1 and all(f is False for f in fs if not isinstance(f, tuple)):
                    return sames[0]
                if sames:
                    return ("or", tuple(fs))
                return False
        return None


class Ctx:
    def __init__(self, rep, db, cfg):
        self.rep, self.db, self.cfg = rep, db, cfg

    def roots(self, qn, want_skipper="stub_skipper"):
        """deduplicated specialisations of a member template, per (primary, Ch, skipper kind)"""
        out = {}
        for fn in self.db.fns(qn):
            ta = fn.get("targs") or []
            rt = fn.get("rec_targs") or []
            allt = list(rt) + list(ta)
            if allt and (not any("drv_parse::stub" in x for x in allt) or
                         any("fcppt::parse::" in x and x != "fcppt::parse::skipper::epsilon" for x in allt)):
                continue  # composed from real parsers: covered by induction, not analysed as a root
            key = (F.primary_site(fn), tuple(ta), tuple(rt))
            out.setdefault(key, fn)
        return list(out.values())

    def paths(self, fn):
        try:
            ps = sx.Interp(self.db, self.cfg).paths(fn, this=("sym", "this"), limit=600)
        except sx.Unsupported as e:
            self.rep.broken("C02: %s is outside the interpreted fragment: %s" % (F.describe(fn)[:160], e))
            return None
        return [PV(p) for p in ps]


def inst_key(fn):
    ta = ",".join(fn.get("targs") or [])
    rt = ",".join(x.replace("drv_parse::", "") for x in (fn.get("rec_targs") or []))
    return "%s<%s>::<%s>" % (F.fn_name(fn).replace("fcppt::parse::", ""), rt, ta.replace("drv_parse::", ""))


def check(cx, rid, fn, pvs, pred, text):
    """pred(pv) -> None or a reason string; applied to every path"""
    bad = None
    for pv in pvs:
        try:
            r = pred(pv)
        except (IndexError, KeyError, TypeError, ValueError):
            r = "the path does not have the event structure the rule expects (events: %s)" % pv.kinds()
        if r:
            bad = (r, pv)
            break
    key = "%s|%s" % (rid, inst_key(fn))
    if bad:
        cx.rep.fail(rid, key, F.primary_site(fn), F.describe(fn)[:200], why="%s: %s" % (text, bad[0]), detail={"path": bad[1].p.show()})
    else:
        cx.rep.ok(rid, key, F.primary_site(fn), F.describe(fn)[:200], how="all-paths", detail={"paths": len(pvs)})


def uses_root_skipper(t):
    return t[3] == SKIPPER


# ------------------------------------------------------------------------------------------------

def rule_alternative(cx):
    for fn in cx.roots("fcppt::parse::alternative::parse"):
        pvs = cx.paths(fn)
        if pvs is None:
            continue

        def alt1(pv):
            s = pv.subs()
            if not s or s[0][2] != "left_" or len(pv.subs("left_")) != 1:
                return "left is not tried first exactly once (%s)" % [x[2] for x in s]
        check(cx, "ALT-1", fn, pvs, alt1, "left is tried first, exactly once, on every path")

        def alt2(pv):
            r = pv.subs("right_")
            if not r:
                return None
            l = pv.subs("left_")[0]
            if pv.ok(l[1]) is not False or pv.fatal(l[1]) is not False:
                return "right is tried although left did not fail non-fatally"
            saves = [t for t in pv.tok if t[0] == "SAVE" and t[1] < l[1]]
            rest = [t for t in pv.tok if t[0] == "RESTORE" and l[1] < t[2] < r[0][1]]
            if not saves or not rest or rest[-1][1] != saves[-1][1]:
                return "right is tried without rewinding to the position saved before left"
            between = [t for t in pv.tok if t[0] in ("SUB", "SKIP", "GETCH") and rest[-1][2] < t[1] < r[0][1]]
            if between:
                return "something consumes input between the rewind and the right alternative"
        check(cx, "ALT-2", fn, pvs, alt2, "right is tried only after a non-fatal failure of left, after rewinding to where left started")

        def alt3(pv):
            l = pv.subs("left_")[0]
            if pv.ok(l[1]) is False and pv.fatal(l[1]) is True:
                if pv.subs("right_"):
                    return "right is tried after a fatal failure of left"
                f = pv.failure_fatalness()
                if pv.succeeded() is not False or f not in (True, ("same", l[1])):
                    return "a fatal failure of left is not propagated as a fatal failure"
        check(cx, "ALT-3", fn, pvs, alt3, "a fatal failure of left stops backtracking")

        def alt4(pv):
            l = pv.subs("left_")[0]
            r = pv.subs("right_")
            anyok = pv.ok(l[1]) is True or (r and pv.ok(r[0][1]) is True)
            if pv.succeeded() != bool(anyok):
                return "success does not coincide with 'one alternative succeeded'"
            if anyok:
                src = l[1] if pv.ok(l[1]) else r[0][1]
                val = sx.show(pv.outcome()[1])
                if "success_payload(#%d:" % src not in val:
                    return "the value %s does not come from the alternative that succeeded (#%d)" % (val, src)
        check(cx, "ALT-4", fn, pvs, alt4, "success iff one alternative succeeded; the value is that alternative's")

        def alt5(pv):
            l = pv.subs("left_")[0]
            r = pv.subs("right_")
            if r and pv.ok(l[1]) is False and pv.ok(r[0][1]) is False:
                f = pv.failure_fatalness()
                want = pv.fatal(r[0][1])
                if f is True and want is True:
                    return None
                if isinstance(f, tuple) and f[0] == "same" and f[1] == r[0][1]:
                    return None
                if isinstance(f, tuple) and f[0] == "or" and want is False:
                    # combined message of two non-fatal errors: fatal iff an operand is fatal; left is
                    # non-fatal on this path and right is non-fatal
                    return None
                if f is False and want is False:
                    return None
                return "both fail but the failure's fatal flag (%s) does not follow the right error (%s)" % (f, want)
        check(cx, "ALT-5", fn, pvs, alt5, "both fail => failure; fatal iff right's error is fatal")

        def alt6(pv):
            last_ok = None
            for t in pv.tok:
                if t[0] == "SUB":
                    last_ok = pv.ok(t[1])
                if t[0] == "RESTORE" and last_ok is True:
                    return "rewind after a successful sub-parse"
        check(cx, "ALT-6", fn, pvs, alt6, "no rewind after a success")

        def alt7(pv):
            if len(pv.subs("right_")) > 1:
                return "right tried more than once"
        check(cx, "ALT-7", fn, pvs, alt7, "at most one SUB(right_) per path")


def rule_sequence(cx):
    for qn, members in (("fcppt::parse::sequence::parse", ("left_", "right_")),):
        for fn in cx.roots(qn):
            pvs = cx.paths(fn)
            if pvs is None:
                continue
            sk_is_stub = "stub_skipper" in " ".join(fn.get("targs") or [])

            def seq1(pv):
                ks = [(t[0], t[2] if t[0] == "SUB" else "") for t in pv.tok if t[0] in ("SUB", "SKIP")]
                want = [("SUB", "left_"), ("SKIP", ""), ("SUB", "right_")] if sk_is_stub else [("SUB", "left_"), ("SUB", "right_")]
                if ks != want[:len(ks)]:
                    return "event order %s is not a prefix of left, skipper, right" % ks
                for t in pv.subs():
                    if not uses_root_skipper(t):
                        return "sub-parser %s is not called with the caller's skipper" % t[2]
            check(cx, "SEQ-1", fn, pvs, seq1, "order left, skipper, right")

            def seq2(pv):
                evs = [t for t in pv.tok if t[0] in ("SUB", "SKIP")]
                for a, b in zip(evs, evs[1:]):
                    if pv.ok(a[1]) is not True:
                        return "a step runs although the previous one did not succeed"
                if evs and pv.ok(evs[-1][1]) is True and len(evs) < (3 if sk_is_stub else 2):
                    return "sequence stops early after a success"
            check(cx, "SEQ-2", fn, pvs, seq2, "each step only after success of the previous")

            def seq3(pv):
                evs = [t for t in pv.tok if t[0] in ("SUB", "SKIP")]
                failed = [t for t in evs if pv.ok(t[1]) is False]
                if failed:
                    if pv.succeeded() is not False:
                        return "a failing step does not fail the sequence"
                    if pv.failure_fatalness() != ("same", failed[0][1]):
                        return "the failure is not the failing step's own error (fatal flag provenance %s)" % (pv.failure_fatalness(),)
            check(cx, "SEQ-3", fn, pvs, seq3, "any failure is propagated unchanged")

            def seq4(pv):
                evs = [t for t in pv.tok if t[0] in ("SUB", "SKIP")]
                if evs and all(pv.ok(t[1]) is True for t in evs):
                    s = pv.subs()
                    val = sx.show(pv.outcome()[1])
                    if pv.succeeded() is not True:
                        return "all steps succeed but the sequence does not"
                    i1 = val.find("success_payload(#%d:" % s[0][1])
                    i2 = val.find("success_payload(#%d:" % s[1][1])
                    if i1 < 0 or i2 < 0 or i1 > i2:
                        return "the value %s does not pair left and right results in order" % val
            check(cx, "SEQ-4", fn, pvs, seq4, "success pairs both results")

            def seq5(pv):
                if any(t[0] in ("SAVE", "RESTORE") for t in pv.tok):
                    return "position save/restore inside a sequence"
            check(cx, "SEQ-5", fn, pvs, seq5, "no position save/restore in a sequence")


def rule_repetition(cx):
    for fn in cx.roots("fcppt::parse::repetition::parse"):
        pvs = cx.paths(fn)
        if pvs is None:
            continue
        sk_is_stub = "stub_skipper" in " ".join(fn.get("targs") or [])

        def rep1(pv):
            ks = [t[0] for t in pv.tok if t[0] in ("SUB", "SKIP")]
            for i, k in enumerate(ks):
                want = ("SUB" if i % 2 == 0 else "SKIP") if sk_is_stub else "SUB"
                if k != want:
                    return "loop body is not element then skipper: %s" % ks
            for t in pv.subs():
                if not uses_root_skipper(t):
                    return "element parser not called with the caller's skipper"
        check(cx, "REP-1", fn, pvs, rep1, "loop body is element then skipper")

        def rep2(pv):
            # a PUSH of element k's payload only after SUB k and the following SKIP succeeded
            for t in pv.tok:
                if t[0] == "PUSH":
                    subs = [s for s in pv.subs() if s[1] < t[1]]
                    if not subs:
                        return "element appended before any sub-parse"
                    s = subs[-1]
                    if "success_payload(#%d:" % s[1] not in t[2]:
                        return "appended value %s is not the last element's result" % t[2]
                    if pv.ok(s[1]) is not True:
                        return "element appended although its parse did not succeed"
                    if sk_is_stub:
                        sk = [k for k in pv.tok if k[0] == "SKIP" and s[1] < k[1] < t[1]]
                        if not sk or pv.ok(sk[0][1]) is not True:
                            return "element counted before the following skip succeeded"
        check(cx, "REP-2", fn, pvs, rep2, "an element counts only when element and following skip both succeeded")

        def rep3(pv):
            if pv.truncated():
                return None
            # the stream is restored at exit to the latest position saved at a complete-iteration boundary
            rest = [t for t in pv.tok if t[0] == "RESTORE"]
            if len(rest) != 1:
                return "expected exactly one rewind at exit, found %d" % len(rest)
            consuming = [t for t in pv.tok if t[0] in ("SUB", "SKIP")]
            if any(t[1] > rest[0][2] for t in consuming):
                return "input consumed after the final rewind"
            # boundaries: before the loop, and after each SKIP (resp. SUB) success
            complete = 0
            evs = consuming
            step = 2 if sk_is_stub else 1
            i = 0
            boundary_after = 0
            while i + step <= len(evs) and all(pv.ok(e[1]) is True for e in evs[i:i + step]):
                boundary_after = evs[i + step - 1][1]
                i += step
            nxt = [e[1] for e in evs if e[1] > boundary_after]
            hi = nxt[0] if nxt else 10 ** 9
            saves = [t for t in pv.tok if t[0] == "SAVE" and boundary_after < t[1] < hi]
            if not saves:
                return "no position saved at the last complete-iteration boundary"
            if rest[0][1] != saves[-1][1] and rest[0][1] not in [s[1] for s in saves]:
                return "exit rewinds to a position that is not the last complete-iteration boundary"
        check(cx, "REP-3", fn, pvs, rep3, "position is remembered after every complete iteration and restored at exit")

        def rep4(pv):
            if pv.truncated():
                return None
            evs = [t for t in pv.tok if t[0] in ("SUB", "SKIP")]
            last = evs[-1]
            if pv.ok(last[1]) is not False:
                return "loop left without a failing step"
            if pv.fatal(last[1]) is None:
                return "the fatal flag of the terminating error is not examined (a fatal error would be swallowed)"
            if pv.fatal(last[1]) is True:
                if pv.succeeded() is not False or pv.failure_fatalness() not in (True, ("same", last[1])):
                    return "fatal terminating error is not propagated"
            else:
                if pv.succeeded() is not True:
                    return "non-fatal terminating error makes the repetition fail"
        check(cx, "REP-4", fn, pvs, rep4, "greedy, never fails unless fatal")

        def rep5(pv):
            ids = []
            for t in pv.tok:
                if t[0] == "PUSH":
                    ids.append(int(t[2].split("#")[1].split(":")[0]))
            if ids != sorted(ids):
                return "elements appended out of parse order"
        check(cx, "REP-5", fn, pvs, rep5, "elements are appended in parse order")


def rule_optional_not_fatal_lexeme(cx):
    for fn in cx.roots("fcppt::parse::optional::parse"):
        pvs = cx.paths(fn)
        if pvs is None:
            continue

        def opt1(pv):
            s = pv.subs()
            if len(s) != 1 or not [t for t in pv.tok if t[0] == "SAVE" and t[1] < s[0][1]]:
                return "not exactly one sub-parse preceded by a position save"
            if not uses_root_skipper(s[0]):
                return "sub-parser not called with the caller's skipper"
        check(cx, "OPT-1", fn, pvs, opt1, "exactly one SUB(parser_) preceded by SAVE(0)")

        def opt2(pv):
            s = pv.subs()[0]
            rest = [t for t in pv.tok if t[0] == "RESTORE"]
            if pv.ok(s[1]) is False:
                sv = [t for t in pv.tok if t[0] == "SAVE" and t[1] < s[1]]
                if not rest or rest[-1][1] != sv[-1][1]:
                    return "failure does not rewind to the saved position"
            elif rest:
                return "rewind after success"
        check(cx, "OPT-2", fn, pvs, opt2, "failure rewinds; success does not")

        def opt3(pv):
            s = pv.subs()[0]
            if pv.ok(s[1]) is False:
                if pv.fatal(s[1]) is True:
                    if pv.succeeded() is not False or pv.failure_fatalness() not in (True, ("same", s[1])):
                        return "fatal failure is swallowed"
                elif pv.fatal(s[1]) is False:
                    if pv.succeeded() is not True or "none" not in sx.show(pv.outcome()[1]):
                        return "non-fatal failure does not yield success(nothing)"
                else:
                    return "the fatal flag of the failure is not examined"
            else:
                v = sx.show(pv.outcome()[1])
                if pv.succeeded() is not True or "success_payload(#%d:" % s[1] not in v or "some" not in v:
                    return "success does not yield some(value)"
        check(cx, "OPT-3", fn, pvs, opt3, "non-fatal failure => success(nothing); fatal => failure; success => some(value)")
    for fn in cx.roots("fcppt::parse::not_::parse"):
        pvs = cx.paths(fn)
        if pvs is None:
            continue

        def not1(pv):
            s = pv.subs()
            if len(s) != 1:
                return "not exactly one sub-parse"
            sv = [t for t in pv.tok if t[0] == "SAVE" and t[1] < s[0][1]]
            rest = [t for t in pv.tok if t[0] == "RESTORE" and t[2] > s[0][1]]
            if not sv or not rest or rest[-1][1] != sv[-1][1]:
                return "a path does not rewind to the position saved before the sub-parse"
        check(cx, "NOT-1", fn, pvs, not1, "consumes nothing: every path rewinds")

        def not2(pv):
            s = pv.subs()[0]
            if pv.ok(s[1]) is None or pv.succeeded() is None or pv.succeeded() == pv.ok(s[1]):
                return "result is not the reverse of the sub-parser's"
        check(cx, "NOT-2", fn, pvs, not2, "reverses the result")
    for fn in cx.roots("fcppt::parse::fatal::parse"):
        pvs = cx.paths(fn)
        if pvs is None:
            continue

        def fat1(pv):
            s = pv.subs()
            if len(s) != 1 or not uses_root_skipper(s[0]):
                return "not exactly one sub-parse with the caller's skipper"
            if pv.ok(s[0][1]) is True:
                if pv.succeeded() is not True or "success_payload(#%d:" % s[0][1] not in sx.show(pv.outcome()[1]):
                    return "success is not passed through"
            else:
                if pv.succeeded() is not False or pv.failure_fatalness() is not True:
                    return "failure is not made fatal"
        check(cx, "FAT-1", fn, pvs, fat1, "failure becomes fatal, success untouched")
    for fn in cx.roots("fcppt::parse::lexeme::parse"):
        pvs = cx.paths(fn)
        if pvs is None:
            continue

        def lex1(pv):
            s = pv.subs()
            if len(s) != 1:
                return "not exactly one sub-parse"
            if "epsilon" not in s[0][3]:
                return "inner parser is called with %s instead of skipper::epsilon" % s[0][3]
            if any(t[0] == "SKIP" for t in pv.tok):
                return "lexeme runs a skipper"
        check(cx, "LEX-1", fn, pvs, lex1, "inner parser runs without the caller's skipper")


WRAPPERS = ["fcppt::parse::convert::parse", "fcppt::parse::convert_if::parse", "fcppt::parse::convert_const::parse",
            "fcppt::parse::ignore::parse", "fcppt::parse::named::parse",
            "fcppt::parse::detail::concrete::parse", "fcppt::parse::base::parse"]


def rule_wrappers(cx):
    n = 0
    for qn in WRAPPERS:
        for fn in cx.roots(qn):
            if fn.get("body") is None or fn.get("virtual") and qn.endswith("base::parse"):
                continue
            pvs = cx.paths(fn)
            if pvs is None:
                continue
            n += 1
            is_convert = qn.split("::")[-2] in ("convert", "convert_if")

            def w1(pv):
                s = pv.subs()
                if len(s) != 1:
                    return "%d sub-parses instead of one" % len(s)
                if not uses_root_skipper(s[0]):
                    return "the wrapped parser is not called with the caller's skipper"
                if any(t[0] in ("SAVE", "RESTORE", "SKIP") for t in pv.tok):
                    return "a transparent wrapper touches the stream position or runs the skipper"
            check(cx, "WRAP-1", fn, pvs, w1, "exactly one SUB of the wrapped parser with the root's state and skipper")

            def w2(pv):
                s = pv.subs()[0]
                users = [t for t in pv.tok if t[0] == "USER"]
                if pv.ok(s[1]) is True:
                    if is_convert:
                        if len(users) != 1 or not any("success_payload(#%d:" % s[1] in a for a in users[0][2]):
                            return "the conversion is not applied exactly once to the sub-parser's result"
                    if qn.endswith("convert_if::parse"):
                        k, v = pv.outcome()
                        if k != "passthrough" or v[1] != users[0][1]:
                            return "convert_if does not return the conversion's own either"
                    elif pv.succeeded() is not True:
                        return "success of the wrapped parser is not a success"
                else:
                    if users:
                        return "the conversion runs on a failure"
            check(cx, "WRAP-2", fn, pvs, w2, "success is mapped through the conversion exactly once")

            def w3(pv):
                s = pv.subs()[0]
                if pv.ok(s[1]) is False:
                    if pv.succeeded() is not False:
                        return "failure of the wrapped parser is not a failure"
                    f = pv.failure_fatalness()
                    if f == ("same", s[1]):
                        return None
                    if f in (True, False) and pv.fatal(s[1]) == f:
                        return None
                    return "the failure's fatal flag (%s) does not follow the wrapped parser's error: a fatal error would allow backtracking" % (f,)
            check(cx, "WRAP-3", fn, pvs, w3, "failure passes through with its fatal flag")
    if n < 6:
        cx.rep.broken("C02: only %d transparent wrapper instantiations analysed" % n)


def rule_compositions(cx):
    """recursive<P>::parse: builds construct<recursive<R>>(cref(parser_)) and calls its parse once with the
    caller's state and skipper, returning its result unchanged (COMP)."""
    for fn in cx.roots("fcppt::parse::recursive::parse"):
        pvs = cx.paths(fn)
        if pvs is None:
            continue
        key = "COMP-R|" + inst_key(fn)
        bad = None
        for pv in pvs:
            ev = pv.p.events
            names = [e[0].split("<")[0] for e in ev]
            if names != ["fcppt::parse::construct", "fcppt::parse::convert::parse"]:
                bad = "events %s are not [construct(parser_), convert::parse]" % names
                break
            if "parser_" not in sx.show(ev[0][1][0]):
                bad = "the inner parser is not built from this->parser_"
            a = [sx.show(x) for x in ev[1][1]]
            if not (a[0].startswith("#1:") and a[1] == STATE and a[2] == SKIPPER):
                bad = "the composed parser is not called with the caller's state and skipper: %s" % a
            k, v = pv.outcome()
            if k != "passthrough" or v[1] != 2:
                bad = "the composed parser's result is not returned unchanged"
        if bad:
            cx.rep.fail("COMP-R", key, F.primary_site(fn), F.describe(fn)[:200], why=bad)
        else:
            cx.rep.ok("COMP-R", key, F.primary_site(fn), F.describe(fn)[:200], how="composition")


# ------------------------------------------------------------------------------------------------
# DER: derived parsers against their documented grammar

class RefMismatch(Exception):
    pass


class RefTrunc(Exception):
    pass


def g_leaf(name, pred=None):
    return ("leaf", name, pred or (lambda obj, name=name: obj == name or obj.endswith("." + name)))


def g_seq(*gs):
    g = gs[0]
    for h in gs[1:]:
        g = ("seq", g, h)
    return g


def g_plus(a):
    return ("seq", a, ("rep", a))


EPS = "EPSILON"


class Ref:
    """The documented PEG semantics as an executable reference, driven by the answers of ONE implementation path:
    the k-th sub-parse / skip the reference performs must be the k-th one of the path (same object, same skipper),
    and it gets the success / fatal answer the path decided for it."""

    def __init__(self, pv, root_is_epsilon):
        self.pv = pv
        self.root_eps = root_is_epsilon
        self.evs = [t for t in pv.tok if t[0] in ("SUB", "SKIP")]
        self.i = 0
        self.pos = 0

    def _sk(self, txt):
        # with skipper::epsilon as the root skipper, `_skipper` and a fresh epsilon{} are the same skipper
        return EPS if "epsilon" in txt or (self.root_eps and txt == SKIPPER) else txt

    def step(self, kind, what, pred, sk):
        if self.i >= len(self.evs):
            if self.pv.truncated():
                raise RefTrunc()
            raise RefMismatch("the documented grammar continues with %s %s but the implementation performs no further step" % (kind, what))
        t = self.evs[self.i]
        if t[0] != kind:
            raise RefMismatch("step %d should be %s %s but the implementation performs %s %s" % (self.i + 1, kind, what, t[0], t[2]))
        if kind == "SUB":
            if not pred(t[2]):
                raise RefMismatch("step %d should parse %s but the implementation parses %s" % (self.i + 1, what, t[2]))
            if self._sk(t[3]) != self._sk(sk):
                raise RefMismatch("step %d parses %s with skipper %s, the documented grammar runs it with %s" % (self.i + 1, what, t[3], sk))
        elif self._sk(t[2]) != self._sk(sk):
            raise RefMismatch("step %d skips with %s instead of %s" % (self.i + 1, t[2], sk))
        self.i += 1
        self.pos = self.i
        ok = self.pv.ok(t[1])
        if ok is None:
            if self.i == len(self.evs):
                return t[1], None     # result returned unexamined: passthrough
            raise RefMismatch("the result of step %d (%s %s) is not examined" % (self.i, kind, what))
        return t[1], ok

    def fatal(self, src):
        if isinstance(src, tuple):
            return self.fatal(src[1]) or self.fatal(src[2])
        f = self.pv.fatal(src)
        if f is None:
            raise RefMismatch("the documented outcome depends on whether the failure of event #%d is fatal, which the implementation never examines" % src)
        return f

    def skip(self, sk):
        if sk == EPS or self.root_eps:
            return ("ok",)   # skipper::epsilon consumes nothing and always succeeds: no step
        ev, ok = self.step("SKIP", sk, None, sk)
        if ok is None:
            return ("pass", ev)
        return ("ok",) if ok else ("fail", ev)

    def run(self, g, sk):
        k = g[0]
        if k == "leaf":
            ev, ok = self.step("SUB", g[1], g[2], sk)
            if ok is None:
                return ("pass", ev)
            return ("ok",) if ok else ("fail", ev)
        if k == "seq":
            r = self.run(g[1], sk)
            if r[0] != "ok":
                return r
            r = self.skip(sk)
            if r[0] != "ok":
                return r
            return self.run(g[2], sk)
        if k == "lex":
            return self.run(g[1], EPS)
        if k == "opt":
            pos = self.pos
            r = self.run(g[1], sk)
            if r[0] == "pass":
                raise RefMismatch("an optional sub-parser's result is returned unexamined")
            if r[0] == "ok":
                return r
            self.pos = pos
            return r if self.fatal(r[1]) else ("ok",)
        if k == "alt":
            pos = self.pos
            l = self.run(g[1], sk)
            if l[0] == "pass":
                raise RefMismatch("an alternative's left result is returned unexamined")
            if l[0] == "ok" or self.fatal(l[1]):
                return l
            self.pos = pos
            r = self.run(g[2], sk)
            if r[0] in ("ok", "pass"):
                return r
            return ("fail", ("alt", l[1], r[1]))
        if k == "rep":
            pos = self.pos
            while True:
                r = self.run(g[1], sk)
                if r[0] == "ok":
                    r = self.skip(sk)
                if r[0] == "pass":
                    raise RefMismatch("a repetition element's result is returned unexamined")
                if r[0] != "ok":
                    self.pos = pos
                    return r if self.fatal(r[1]) else ("ok",)
                pos = self.pos
        raise ValueError(g)


def impl_position(pv):
    cnt = cur = 0
    saved = {}
    for t in pv.tok:
        if t[0] in ("SUB", "SKIP"):
            cnt += 1
            cur = cnt
        elif t[0] == "SAVE":
            saved[t[1]] = cur
        elif t[0] == "RESTORE":
            if t[1] not in saved:
                return None
            cur = saved[t[1]]
    return cur


def digits_pred(obj):
    return "digits" in obj


def lit_pred(code):
    return lambda obj: "basic_literal" in obj and re.search(r"\b%d\b" % code, obj) is not None


DIG = ("leaf", "digits", digits_pred)
MINUS = ("leaf", "literal('-')", lit_pred(45))
DOT = ("leaf", "literal('.')", lit_pred(46))

# grammar of each derived parser, from its documentation (\brief / "Equivalent to" in *_decl.hpp) and the property text
DERIVED = [
    ("DER-PLUS", "fcppt::parse::repetition_plus::parse", g_plus(g_leaf("parser_")), False,
     "+p = p >> *p (at least one element, then greedy repetition, skipper between all elements)"),
    ("DER-SEP", "fcppt::parse::separator::parse",
     ("opt", g_seq(g_leaf("inner_"), ("rep", g_seq(g_leaf("sep_"), g_leaf("inner_"))))), False,
     "separator{inner,sep} = -(inner >> *(sep >> inner))"),
    ("DER-LIST", "fcppt::parse::list::parse",
     g_seq(g_leaf("start_"), ("alt", g_leaf("end_"), g_seq(g_leaf("separator_"), g_leaf("end_")))), False,
     "list = start >> (end | (separator{inner,sep} >> end))"),
    ("DER-INT", "fcppt::parse::int_::parse", ("lex", g_seq(("opt", MINUS), g_plus(DIG))), True,
     "int_ = lexeme[-'-' >> +digits], then conversion"),
    ("DER-UINT", "fcppt::parse::uint::parse", ("lex", g_plus(DIG)), True, "uint = lexeme[+digits], then conversion"),
    ("DER-FLOAT", "fcppt::parse::float_::parse", ("lex", g_seq(("opt", MINUS), g_plus(DIG), DOT, g_plus(DIG))), True,
     "float_ = lexeme[-'-' >> +digits >> '.' >> +digits], then conversion"),
]

DER_INLINE = ("fcppt::parse::operator>>", "fcppt::parse::operator*", "fcppt::parse::operator-", "fcppt::parse::operator|",
              "fcppt::parse::operator!", "fcppt::parse::sequence::", "fcppt::parse::repetition::", "fcppt::parse::optional::",
              "fcppt::parse::alternative::", "fcppt::parse::lexeme::", "fcppt::parse::make_lexeme", "fcppt::parse::construct",
              "fcppt::parse::convert::", "fcppt::parse::convert_const::", "fcppt::parse::make_convert", "fcppt::parse::deref",
              "fcppt::make_cref", "fcppt::reference::", "fcppt::parse::repetition_plus::", "fcppt::parse::make_literal",
              "fcppt::parse::literal", "fcppt::parse::make_fatal", "fcppt::parse::fatal::", "fcppt::parse::make_ignore",
              "fcppt::parse::ignore::")


def rule_derived(cx):
    cfg = sx.Config(inline_prefixes=INLINE + DER_INLINE, pure=PURE + ("fcppt::parse::digits", "fcppt::detail::char_literal"), hooks=cx.cfg.hooks, loop_bound=2,
                    record_prefixes=("fcppt::parse::",))
    dcx = Ctx(cx.rep, cx.db, cfg)
    for rid, qn, grammar, post_may_fail, text in DERIVED:
        seen = {}
        for fn in cx.db.fns(qn):
            ta = fn.get("targs") or []
            rt = fn.get("rec_targs") or []
            if any("fcppt::parse::" in x and x != "fcppt::parse::skipper::epsilon" for x in list(ta) + list(rt)):
                continue
            seen.setdefault((F.primary_site(fn), tuple(ta), tuple(rt)), fn)
        for fn in seen.values():
            ta = fn.get("targs") or []
            root_eps = any("epsilon" in x for x in ta)
            pvs = dcx.paths(fn)
            if pvs is None:
                continue
            key = "%s|%s" % (rid, inst_key(fn))
            bad = None
            nsteps = 0
            for pv in pvs:
                ref = Ref(pv, root_eps)
                try:
                    r = ref.run(grammar, SKIPPER)
                except RefTrunc:
                    nsteps = max(nsteps, ref.i)
                    continue
                except RefMismatch as e:
                    bad = (str(e), pv)
                    break
                nsteps = max(nsteps, ref.i)
                if ref.i != len(ref.evs):
                    t = ref.evs[ref.i]
                    bad = ("the documented grammar is finished after %d steps but the implementation goes on with %s %s" % (ref.i, t[0], t[2]), pv)
                    break
                if pv.truncated():
                    continue
                got = pv.succeeded()
                if r[0] == "pass":
                    if pv.outcome()[0] != "passthrough" and not post_may_fail:
                        pass
                    continue
                if r[0] == "ok":
                    if got is not True and not (post_may_fail and got is False):
                        bad = ("the documented grammar succeeds on this path, the implementation %s" % ("fails" if got is False else "returns an undetermined result"), pv)
                        break
                    ip = impl_position(pv)
                    if got is True and ip is not None and ip != ref.pos:
                        bad = ("on success the input position is the one after step %d, the documented grammar ends after step %d" % (ip, ref.pos), pv)
                        break
                else:
                    if got is not False:
                        bad = ("the documented grammar fails on this path (error of event #%s), the implementation %s" % (r[1], "succeeds" if got else "returns an undetermined result"), pv)
                        break
            if not nsteps and not bad:
                bad = ("no sub-parse step was matched", pvs[0] if pvs else None)
            if bad:
                cx.rep.fail(rid, key, F.primary_site(fn), F.describe(fn)[:200], why="%s: %s" % (text, bad[0]),
                            detail={"path": bad[1].p.show() if bad[1] else None})
            else:
                cx.rep.ok(rid, key, F.primary_site(fn), F.describe(fn)[:200], how="reference-equal", detail={"paths": len(pvs), "steps": nsteps})


def rule_entry(cx):
    # consume_remaining: ENT-3  (table: failure => failure; success & rest unreadable => failure;
    # success & rest empty => success(value); success & rest non-empty => failure)
    seen = set()
    for fn in cx.db.fns("fcppt::parse::detail::consume_remaining"):
        k = (F.primary_site(fn), (fn.get("targs") or ["?"])[0])
        if k in seen:
            continue
        seen.add(k)
        pvs = cx.paths(fn)
        if pvs is None:
            continue

        def ent3(pv):
            ok = pv.dec.get("has_success(r_a1)")
            if ok is None:
                return "the parser's result is not examined"
            if ok is False:
                if pv.succeeded() is not False:
                    return "parser failure is not a failure of the entry point"
                return None
            readable = [v for k2, v in pv.dec.items() if k2.startswith("has_value(")]
            empties = [v for k2, v in pv.dec.items() if "empty" in k2]
            if not readable:
                return "the remaining input is not read"
            if readable[0] is False:
                return None if pv.succeeded() is False else "unreadable rest is accepted"
            if not empties:
                return "success does not depend on the remaining input being empty"
            if pv.succeeded() != empties[0]:
                return "success=%s although rest-empty=%s" % (pv.succeeded(), empties[0])
            if pv.succeeded() and "success_payload(r_a1)" not in sx.show(pv.outcome()[1]):
                return "the value is not the parser's result"
        check(cx, "ENT-3", fn, pvs, ent3, "string entry points succeed iff the parser succeeded and the whole input was consumed")
    # phrase_parse: ENT-1
    for fn in cx.roots("fcppt::parse::phrase_parse"):
        pvs = cx.paths(fn)
        if pvs is None:
            continue

        def ent1(pv):
            evs = [t for t in pv.tok if t[0] in ("SKIP", "SUB")]
            sk_is_stub = "stub_skipper" in " ".join(fn.get("targs") or [])
            if sk_is_stub:
                if not evs or evs[0][0] != "SKIP":
                    return "the skipper does not run before the parser"
                if len(evs) > 1 and pv.ok(evs[0][1]) is not True:
                    return "the parser runs although the initial skip failed"
                if pv.ok(evs[0][1]) is True and len(evs) != 2:
                    return "the parser does not run exactly once after the initial skip"
            else:
                if len([e for e in evs if e[0] == "SUB"]) != 1:
                    return "the parser does not run exactly once"
        check(cx, "ENT-1", fn, pvs, ent1, "phrase_parse: SKIP first; parser only after ok(SKIP)")


def rule_err(cx):
    cfg = sx.Config(inline_prefixes=("fcppt::optional::", "fcppt::either::", "fcppt::cond"), pure=("fcppt::parse::error::get",),
                    hooks={"fcppt::parse::error::is_fatal": hook_is_fatal})
    for fn in cx.db.fns("fcppt::parse::operator+"):
        if len(fn.get("params", [])) != 2 or "parse::error" not in (fn["_unit"].ty(fn["params"][0]["t"]) or ""):
            continue
        try:
            ps = sx.Interp(cx.db, cfg).paths(fn)
        except sx.Unsupported as e:
            cx.rep.broken("C02: error operator+ outside fragment: %s" % e)
            continue
        bad = None
        for p in ps:
            dec = {sx.show(a): b for a, b in p.decisions}
            l = dec.get("is_fatal(r_a0)")
            r = dec.get("is_fatal(r_a1)")
            v = p.outcome[1] if p.outcome[0] == "return" else None
            fatal = isinstance(v, tuple) and v[0] == "new" and len(v[3]) == 2
            want = bool(l) or bool(r)
            if l is None and r is None:
                bad = "the fatal flags of the operands are not examined"
            elif fatal != want:
                bad = "result fatal=%s for operands fatal=(%s,%s)" % (fatal, l, r)
        key = "ERR-1|" + ",".join(fn.get("targs") or [])
        if bad:
            cx.rep.fail("ERR-1", key, F.primary_site(fn), F.describe(fn), why=bad, detail={"paths": [p.show() for p in ps]})
        else:
            cx.rep.ok("ERR-1", key, F.primary_site(fn), F.describe(fn), how="table-equal", detail={"paths": len(ps)})


def main(rep, tier, only):
    db = load.load(tier, lib=False, drivers=["drv_parse"])
    rep.extra.update(db.stats())
    hooks = {"fcppt::parse::error::is_fatal": hook_is_fatal}
    cfg = sx.Config(inline_prefixes=INLINE, pure=PURE, hooks=hooks, loop_bound=2)
    cx = Ctx(rep, db, cfg)
    for rid, text, floor in [
        ("ALT-1", "left is tried first, exactly once, on every path", 2), ("ALT-2", "right only after non-fatal failure of left, after rewinding", 2),
        ("ALT-3", "a fatal failure of left stops backtracking", 2), ("ALT-4", "success iff one alternative succeeded; value from that one", 2),
        ("ALT-5", "both fail => failure; fatal iff right's error is fatal", 2), ("ALT-6", "no rewind after a success", 2), ("ALT-7", "at most one SUB(right_)", 2),
        ("SEQ-1", "order left, skipper, right", 2), ("SEQ-2", "each step only after success of the previous", 2), ("SEQ-3", "failure propagated unchanged", 2),
        ("SEQ-4", "success pairs both results", 2), ("SEQ-5", "no save/restore in a sequence", 2),
        ("REP-1", "loop body is element then skipper", 2), ("REP-2", "element counts only after element and skip succeeded", 2),
        ("REP-3", "position remembered after every complete iteration, restored at exit", 2), ("REP-4", "greedy, never fails unless fatal", 2),
        ("REP-5", "elements appended in parse order", 2),
        ("OPT-1", "one sub-parse preceded by a save", 2), ("OPT-2", "failure rewinds, success does not", 2), ("OPT-3", "non-fatal => nothing; fatal => failure; success => some", 2),
        ("NOT-1", "every path rewinds", 2), ("NOT-2", "reverses the result", 2), ("FAT-1", "failure becomes fatal, success untouched", 2),
        ("LEX-1", "inner parser runs with skipper::epsilon", 2),
        ("WRAP-1", "exactly one SUB with the root's state and skipper", 6), ("WRAP-2", "conversion exactly once on success", 6),
        ("WRAP-3", "failure passes through with its fatal flag", 6),
        ("ENT-1", "phrase_parse: SKIP first", 1), ("ENT-3", "string entry points: success iff parser succeeded and input consumed", 1),
        ("COMP-R", "recursive = construct<recursive<R>>(cref(parser_)) parsed once with the caller's state and skipper", 2),
        ("ERR-1", "operator+ on errors: fatal iff either operand is fatal", 1)] + [
            (rid, "%s: every path of the implementation (sub-parsers opaque, combinators inlined) performs exactly the sub-parse / skip steps of the documented grammar, with the same skipper, outcome and final position" % text, 2)
            for rid, qn, g, pm, text in DERIVED]:
        rep.rule(rid, text, floor=floor)
    rule_alternative(cx)
    rule_sequence(cx)
    rule_repetition(cx)
    rule_optional_not_fatal_lexeme(cx)
    rule_wrappers(cx)
    rule_compositions(cx)
    rule_derived(cx)
    rule_entry(cx)
    rule_err(cx)
    rep.explanation = ("Protocol conformance of each combinator relative to opaque sub-parsers, for Ch in {char, wchar_t} and "
                       "skipper in {opaque stub, epsilon}: engine S enumerates every consistent assignment of the sub-parsers' "
                       "success / fatal flags (loops unrolled twice) and the rules are predicates over the path set. The lift to "
                       "all grammars and inputs is structural induction with the stub contract as hypothesis (not mechanised).")
    rep.trusted = ["clang 14 front end", "tagged-union model of either/optional (checked by C04)", "the induction argument of DESIGN.md §2",
                   "std::basic_istream tellg/seekg semantics behind get_position/set_position (C12)"]
    rep.assumptions = ["numeric value of int_/uint/float_ and error message text are not decided",
                       "derived parsers (repetition_plus, separator, list, int_, uint, float_) are checked step by step against their documented grammar (DER-*); the element values they assemble are not",
                       "leaf parsers' character decisions are covered by C12/LEAF rules only for get_char location order"]
