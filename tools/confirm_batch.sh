#!/bin/bash
# confirm_batch.sh <log> <worktree-name>...: confirm every seed out/<k> of each scratch worktree /tmp/wt/<name> sequentially
log=$1; shift
for p in "$@"; do for d in /tmp/wt/$p/out/*/; do k=$(basename $d); [ -f "$d/patch.diff" ] || continue; J=${J:-8} /verif/tools/confirm_seed.sh /tmp/wt/$p $k; done; done >> "$log" 2>&1
echo BATCH-DONE >> "$log"
