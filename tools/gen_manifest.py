#!/usr/bin/env python3
"""Writes /verif/MANIFEST.json from the table below (kept in one place so that the manifest,
the not_applicable list and the checks stay consistent)."""
import json
import os

VERIF = os.path.dirname(os.path.dirname(os.path.abspath(__file__)))
props = [json.loads(l) for l in open(os.path.join(VERIF, "properties.jsonl"))]

CHECKS = {}
NA = {
}


def check(pid, category, text, note, technique, design_ref, thorough=True):
    CHECKS[pid] = {
        "property_id": pid,
        "quick_cmd": "bin/check %s --tier quick" % pid,
        "thorough_cmd": "bin/check %s --tier thorough" % pid,
        "evidence_file": "/verif/evidence/%s.json" % pid,
        "replay_cmd_template": "cat {path}",
        "engine": "static-analysis",
        "level_claimed": {"category": category, "text": text, "design_ref": design_ref},
        "level_note": note,
        "technique": technique,
    }


exec(open(os.path.join(VERIF, "tools", "manifest_checks.py")).read())

na = []
for p in props:
    if p["id"] in CHECKS:
        continue
    na.append({"property_id": p["id"], "reason": NA.get(p["id"], "check under construction in this round (DESIGN.md §9 build order); not claimed until it passes on the unchanged tree")})

m = {
    "version": 1,
    "setup_cmd": "python3 -c \"import sys; sys.path.insert(0,'/verif'); from engine import plumbing as P; P.build_tools(force=True)\"",
    "hooks": {"guard": "FCPPT_VERIF", "enable": "no hooks: the static analyses read /repo's sources as they are; nothing in /repo is instrumented",
              "baseline_off_cmd": "cmake -S /repo -B /repo/_build -G Ninja >/dev/null && cmake --build /repo/_build -j16 >/dev/null && ctest --test-dir /repo/_build -j8 --timeout 900",
              "source_commits": [], "add_only": True},
    "engines": [
        {"name": "F fact extractor", "path": "tools/fcppt-facts.cpp", "serves_properties": sorted(CHECKS), "kind_free_text": "libTooling pass over the compilation database: type-resolved AST of every instantiation as JSON"},
        {"name": "G guard discharge", "path": "engine/guards.py", "serves_properties": ["C01"], "kind_free_text": "structured dominance of required facts over partial operations"},
        {"name": "S/D abstract interpreter", "path": "engine/sx.py", "serves_properties": ["C04"], "kind_free_text": "control skeleton by inlining combinators over abstract values; finite atom domains; table comparison"},
        {"name": "W witnesses", "path": "engine/witness.py", "serves_properties": ["C04", "C05"], "kind_free_text": "type-level witnesses compiled with clang -fsyntax-only"},
        {"name": "M move discipline", "path": "engine/moves.py", "serves_properties": ["C05"], "kind_free_text": "use-after-consume and forwarded-storage rules"},
        {"name": "P polynomial provenance", "path": "engine/poly.py", "serves_properties": ["C14", "C18"], "kind_free_text": "normal form (integer polynomial over operand-element atoms) of the provenance terms of branch-free arithmetic code"},
        {"name": "K state-machine execution over lattice positions", "path": "engine/walk2d.py", "serves_properties": ["C18"], "kind_free_text": "abstract execution of in-place member functions over symbolic counters and 2-d positions"},
        {"name": "L invariant-preservation rules", "path": "engine/lrules.py", "serves_properties": ["C09", "C11"], "kind_free_text": "field-write / pairing / ordering rules"},
    ],
    "checks": [CHECKS[k] for k in sorted(CHECKS)],
    "not_applicable": na,
    "notes": "Technique family: static analysis only. No registered command executes fcppt code. Exit 2 + 'ANALYSIS-BROKEN:' means the analysis could not be performed (anchor vanished, unit does not parse); it is neither a pass nor a violation. Self-test: bin/selftest (seeded mutants applied as include-path overlays, /repo untouched).",
}
json.dump(m, open(os.path.join(VERIF, "MANIFEST.json"), "w"), indent=1)
print("claimed:", sorted(CHECKS), "not applicable / pending:", [x["property_id"] for x in na])
