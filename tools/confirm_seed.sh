#!/bin/bash
# confirm_seed.sh <worktree> <k>: confirm a seeded change in its scratch worktree:
#  (1) with the patch: everything builds and the whole existing suite passes, the demo FAILS
#  (2) without the patch: the demo PASSES
# Prints one summary line "CONFIRM <wt> <k> build=<ok|FAIL> tests=<passed>/<total> demo_with=<rc> demo_without=<rc>"
wt=$1; k=$2; J=${J:-12}
cd "$wt" || exit 2
git checkout -q -- libs
demo_cmd() {
  python3 - "$wt/out/$k/demo.cpp" <<'PY'
import sys,re
lines=open(sys.argv[1]).read().split("\n")
cmd=[];on=False
for l in lines[:40]:
    if not l.startswith("//"):
        if on: break
        continue
    t=l[2:].strip()
    if not on and ("g++" in t or "clang++" in t):
        on=True
        t=t[t.index("g++") if "g++" in t else t.index("clang++"):]
        if t.startswith("++"): t="g"+t
    elif not on:
        continue
    if on:
        if not t: break
        cont=t.endswith("\\")
        cmd.append(t.rstrip("\\").strip())
        if not cont: break
print(" ".join(cmd))
PY
}
CMD=$(demo_cmd)
git apply "out/$k/patch.diff" || { echo "CONFIRM $wt $k patch-does-not-apply"; exit 1; }
if ninja -C _b -j$J >/tmp/confirm_build.$$ 2>&1; then build=ok; else build=FAIL; fi
res=$(ctest --test-dir _b -j$J --timeout 300 2>&1 | grep "tests passed" )
tests=$(echo "$res" | sed -E 's/.*, ([0-9]+) tests failed out of ([0-9]+).*/\1 failed of \2/')
( eval "$CMD" ) >/tmp/confirm_demo_with.$$ 2>&1; rc_with=$?
git checkout -q -- libs
ninja -C _b -j$J fcppt_core fcppt_options fcppt_log fcppt_filesystem >/dev/null 2>&1
( eval "$CMD" ) >/tmp/confirm_demo_without.$$ 2>&1; rc_without=$?
echo "CONFIRM $wt $k build=$build tests=[$tests] demo_with=$rc_with demo_without=$rc_without cmd=[${CMD:0:80}...]"
tail -2 /tmp/confirm_demo_with.$$ | sed 's/^/    with: /'
tail -1 /tmp/confirm_demo_without.$$ | sed 's/^/    without: /'
rm -f /tmp/confirm_*.$$
