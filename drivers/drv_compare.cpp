// Instantiation driver: comparison operators and hashing of fcppt value types (coherence of
// ==, !=, <, hash). Parsed only; never linked or run.
#include "drv.hpp"
#include <fcppt/hash.hpp>
#include <fcppt/hash_combine.hpp>
#include <fcppt/make_strong_typedef.hpp>
#include <fcppt/no_init.hpp>
#include <fcppt/recursive.hpp>
#include <fcppt/recursive_comparison.hpp>
#include <fcppt/reference.hpp>
#include <fcppt/reference_comparison.hpp>
#include <fcppt/reference_hash.hpp>
#include <fcppt/reference_std_hash.hpp>
#include <fcppt/shared_ptr.hpp>
#include <fcppt/shared_ptr_hash_impl.hpp>
#include <fcppt/shared_ptr_std_hash.hpp>
#include <fcppt/strong_typedef.hpp>
#include <fcppt/strong_typedef_apply.hpp>
#include <fcppt/strong_typedef_arithmetic.hpp>
#include <fcppt/strong_typedef_assignment.hpp>
#include <fcppt/strong_typedef_bitwise.hpp>
#include <fcppt/strong_typedef_comparison.hpp>
#include <fcppt/strong_typedef_construct_cast.hpp>
#include <fcppt/strong_typedef_hash.hpp>
#include <fcppt/strong_typedef_input.hpp>
#include <fcppt/strong_typedef_map.hpp>
#include <fcppt/strong_typedef_output.hpp>
#include <fcppt/strong_typedef_std_hash.hpp>
#include <fcppt/unique_ptr.hpp>
#include <fcppt/array/comparison.hpp>
#include <fcppt/array/object.hpp>
#include <fcppt/cast/size_fun.hpp>
#include <fcppt/cast/static_cast_fun.hpp>
#include <fcppt/container/bitfield/comparison.hpp>
#include <fcppt/container/bitfield/hash.hpp>
#include <fcppt/container/bitfield/object.hpp>
#include <fcppt/container/bitfield/std_hash.hpp>
#include <fcppt/container/grid/comparison.hpp>
#include <fcppt/container/grid/object.hpp>
#include <fcppt/container/raw_vector/comparison.hpp>
#include <fcppt/container/raw_vector/object.hpp>
#include <fcppt/container/tree/comparison.hpp>
#include <fcppt/container/tree/object.hpp>
#include <fcppt/either/comparison.hpp>
#include <fcppt/either/object.hpp>
#include <fcppt/enum/array.hpp>
#include <fcppt/enum/array_comparison.hpp>
#include <fcppt/math/box/comparison.hpp>
#include <fcppt/math/box/object.hpp>
#include <fcppt/math/detail/array_equal.hpp>
#include <fcppt/math/detail/array_less.hpp>
#include <fcppt/math/detail/hash_decl.hpp>
#include <fcppt/math/detail/hash_impl.hpp>
#include <fcppt/math/dim/comparison.hpp>
#include <fcppt/math/dim/static.hpp>
#include <fcppt/math/dim/std_hash.hpp>
#include <fcppt/math/matrix/comparison.hpp>
#include <fcppt/math/matrix/static.hpp>
#include <fcppt/math/matrix/std_hash.hpp>
#include <fcppt/math/sphere/comparison.hpp>
#include <fcppt/math/sphere/object.hpp>
#include <fcppt/math/vector/comparison.hpp>
#include <fcppt/math/vector/static.hpp>
#include <fcppt/math/vector/std_hash.hpp>
#include <fcppt/optional/comparison.hpp>
#include <fcppt/optional/object.hpp>
#include <fcppt/range/hash.hpp>
#include <fcppt/record/comparison.hpp>
#include <fcppt/record/element.hpp>
#include <fcppt/record/make_label.hpp>
#include <fcppt/record/object.hpp>
#include <fcppt/tuple/comparison.hpp>
#include <fcppt/tuple/object.hpp>
#include <fcppt/type_iso/decorate.hpp>
#include <fcppt/type_iso/enum.hpp>
#include <fcppt/type_iso/strong_typedef.hpp>
#include <fcppt/type_iso/undecorate.hpp>
#include <fcppt/variant/compare.hpp>
#include <fcppt/variant/comparison.hpp>
#include <fcppt/variant/object.hpp>
#include <array>
#include <cstddef>
#include <functional>
#include <istream>
#include <list>
#include <ostream>
#include <string>
#include <vector>

namespace drv_compare
{
enum class en
{
  e1,
  e2,
  e3,
  fcppt_maximum = e3
};

FCPPT_MAKE_STRONG_TYPEDEF(int, st_int);
FCPPT_MAKE_STRONG_TYPEDEF(unsigned, st_uint);
FCPPT_MAKE_STRONG_TYPEDEF(std::string, st_string);
FCPPT_MAKE_STRONG_TYPEDEF(en, st_enum);
FCPPT_MAKE_STRONG_TYPEDEF(st_int, st_nested);

FCPPT_RECORD_MAKE_LABEL(int_label);
FCPPT_RECORD_MAKE_LABEL(str_label);
using rec = fcppt::record::object<
    fcppt::record::element<int_label, int>,
    fcppt::record::element<str_label, std::string>>;
using rec_perm = fcppt::record::object<
    fcppt::record::element<str_label, std::string>,
    fcppt::record::element<int_label, int>>;

using ref_int = fcppt::reference<int>;
using ref_cint = fcppt::reference<int const>;
using rec_int = fcppt::recursive<int>;
using rec_str = fcppt::recursive<std::string>;
using sp_int = fcppt::shared_ptr<int>;
using sp_cint = fcppt::shared_ptr<int const>;
using opt_int = fcppt::optional::object<int>;
using opt_str = fcppt::optional::object<std::string>;
using eith = fcppt::either::object<int, std::string>;
using var = fcppt::variant::object<int, std::string>;
using tup = fcppt::tuple::object<int, char>;
using arr = fcppt::array::object<int, 3>;
using vec3 = fcppt::math::vector::static_<int, 3>;
using dim2 = fcppt::math::dim::static_<int, 2>;
using mat22 = fcppt::math::matrix::static_<int, 2, 2>;
using box2 = fcppt::math::box::object<int, 2>;
using sphere2 = fcppt::math::sphere::object<int, 2>;
using bitf = fcppt::container::bitfield::object<en>;
using earr = fcppt::enum_::array<en, int>;
using grid2 = fcppt::container::grid::object<int, 2>;
using tree = fcppt::container::tree::object<int>;
using rawvec = fcppt::container::raw_vector::object<int>;

// opaque polymorphic comparator for variant::compare
struct poly_compare
{
  template <typename T>
  bool operator()(T const &, T const &) const;
};
}
using namespace drv_compare;

#define DRV_EQ(T) (void)(drv::clv<T>() == drv::clv<T>());
#define DRV_NE(T) (void)(drv::clv<T>() != drv::clv<T>());
#define DRV_LT(T) (void)(drv::clv<T>() < drv::clv<T>());
#define DRV_LE(T) (void)(drv::clv<T>() <= drv::clv<T>());
#define DRV_GT(T) (void)(drv::clv<T>() > drv::clv<T>());
#define DRV_GE(T) (void)(drv::clv<T>() >= drv::clv<T>());
#define DRV_EQ_NE(T) DRV_EQ(T) DRV_NE(T)
#define DRV_EQ_NE_LT(T) DRV_EQ(T) DRV_NE(T) DRV_LT(T)
#define DRV_ALL6(T) DRV_EQ(T) DRV_NE(T) DRV_LT(T) DRV_LE(T) DRV_GT(T) DRV_GE(T)
#define DRV_STD_HASH(T) (void)std::hash<T>{}(drv::clv<T>());
#define DRV_FCPPT_HASH(T) (void)fcppt::hash(drv::clv<T>());

// ---------------------------------------------------------------- strong_typedef
DRV(drv_cmp_strong_typedef_object)
{
  (void)st_int(drv::make<int>());
  (void)st_int(fcppt::no_init{});
  (void)drv::lv<st_int>().get();
  (void)drv::clv<st_int>().get();
  (void)st_string(drv::make<std::string>());
  (void)drv::clv<st_string>().get();
}
DRV(drv_cmp_strong_typedef_comparison)
{
  DRV_ALL6(st_int)
  DRV_ALL6(st_uint)
  DRV_ALL6(st_string)
  DRV_ALL6(st_enum)
  DRV_ALL6(st_nested)
}
DRV(drv_cmp_strong_typedef_hash)
{
  (void)fcppt::strong_typedef_hash<st_int>{}(drv::clv<st_int>());
  (void)fcppt::strong_typedef_hash<st_string>{}(drv::clv<st_string>());
  DRV_STD_HASH(st_int)
  DRV_STD_HASH(st_uint)
  DRV_STD_HASH(st_string)
  DRV_FCPPT_HASH(st_int)
  DRV_FCPPT_HASH(st_string)
}
DRV(drv_cmp_strong_typedef_arithmetic)
{
  (void)(drv::clv<st_int>() + drv::clv<st_int>());
  (void)(drv::clv<st_int>() - drv::clv<st_int>());
  (void)(drv::clv<st_int>() * drv::clv<st_int>());
  (void)(-drv::clv<st_int>());
  (void)++drv::lv<st_int>();
  (void)--drv::lv<st_int>();
  (void)drv::lv<st_int>()++;
  (void)drv::lv<st_int>()--;
  (void)(drv::clv<st_uint>() + drv::clv<st_uint>());
  (void)(drv::clv<st_uint>() - drv::clv<st_uint>());
  (void)(drv::clv<st_uint>() * drv::clv<st_uint>());
  (void)(-drv::clv<st_uint>());
  (void)++drv::lv<st_uint>();
  (void)--drv::lv<st_uint>();
  (void)drv::lv<st_uint>()++;
  (void)drv::lv<st_uint>()--;
  (void)(drv::clv<st_nested>() + drv::clv<st_nested>());
  (void)(drv::clv<st_string>() + drv::clv<st_string>());
}
DRV(drv_cmp_strong_typedef_bitwise)
{
  (void)(drv::clv<st_int>() & drv::clv<st_int>());
  (void)(drv::clv<st_int>() | drv::clv<st_int>());
  (void)(drv::clv<st_int>() ^ drv::clv<st_int>());
  (void)(~drv::clv<st_int>());
  (void)(drv::clv<st_uint>() & drv::clv<st_uint>());
  (void)(drv::clv<st_uint>() | drv::clv<st_uint>());
  (void)(drv::clv<st_uint>() ^ drv::clv<st_uint>());
  (void)(~drv::clv<st_uint>());
}
DRV(drv_cmp_strong_typedef_assignment)
{
  (void)(drv::lv<st_int>() += drv::clv<st_int>());
  (void)(drv::lv<st_int>() -= drv::clv<st_int>());
  (void)(drv::lv<st_int>() *= drv::clv<st_int>());
  (void)(drv::lv<st_int>() &= drv::clv<st_int>());
  (void)(drv::lv<st_int>() |= drv::clv<st_int>());
  (void)(drv::lv<st_int>() ^= drv::clv<st_int>());
  (void)(drv::lv<st_uint>() += drv::clv<st_uint>());
  (void)(drv::lv<st_uint>() -= drv::clv<st_uint>());
  (void)(drv::lv<st_uint>() *= drv::clv<st_uint>());
  (void)(drv::lv<st_uint>() &= drv::clv<st_uint>());
  (void)(drv::lv<st_uint>() |= drv::clv<st_uint>());
  (void)(drv::lv<st_uint>() ^= drv::clv<st_uint>());
  (void)(drv::lv<st_string>() += drv::clv<st_string>());
}
DRV(drv_cmp_strong_typedef_io)
{
  (void)(drv::lv<std::ostream>() << drv::clv<st_int>());
  (void)(drv::lv<std::wostream>() << drv::clv<st_int>());
  (void)(drv::lv<std::ostream>() << drv::clv<st_string>());
  (void)(drv::lv<std::istream>() >> drv::lv<st_int>());
  (void)(drv::lv<std::wistream>() >> drv::lv<st_int>());
  (void)(drv::lv<std::istream>() >> drv::lv<st_string>());
}
DRV(drv_cmp_strong_typedef_map_apply)
{
  (void)fcppt::strong_typedef_map(drv::clv<st_int>(), drv::clv<drv::fn<long(int)>>());
  (void)fcppt::strong_typedef_map(drv::lv<st_int>(), drv::clv<drv::fn<long(int &)>>());
  (void)fcppt::strong_typedef_map(
      drv::make<st_string>(), drv::clv<drv::fn<std::string(std::string &&)>>());
  (void)fcppt::strong_typedef_apply(drv::clv<drv::fn<long(int)>>(), drv::clv<st_int>());
  (void)fcppt::strong_typedef_apply(
      drv::clv<drv::fn<long(int, int)>>(), drv::clv<st_int>(), drv::clv<st_int>());
  (void)fcppt::strong_typedef_apply(
      drv::clv<drv::fn<std::string(std::string &&, std::string const &)>>(),
      drv::make<st_string>(),
      drv::clv<st_string>());
  (void)fcppt::strong_typedef_construct_cast<st_int, fcppt::cast::static_cast_fun>(
      drv::clv<long>());
  (void)fcppt::strong_typedef_construct_cast<st_uint, fcppt::cast::size_fun>(
      drv::clv<unsigned long>());
}

// ---------------------------------------------------------------- reference
DRV(drv_cmp_reference)
{
  DRV_EQ_NE_LT(ref_int)
  DRV_EQ_NE_LT(ref_cint)
  (void)fcppt::reference_hash<ref_int>{}(drv::clv<ref_int>());
  (void)fcppt::reference_hash<ref_cint>{}(drv::clv<ref_cint>());
  DRV_STD_HASH(ref_int)
  DRV_STD_HASH(ref_cint)
  DRV_FCPPT_HASH(ref_int)
  (void)ref_int(drv::lv<int>());
  (void)drv::clv<ref_int>().get();
}

// ---------------------------------------------------------------- recursive
DRV(drv_cmp_recursive)
{
  DRV_EQ_NE(rec_int)
  DRV_EQ_NE(rec_str)
  (void)rec_int(drv::clv<int>());
  (void)rec_int(drv::make<int>());
  (void)rec_int(drv::clv<rec_int>());
  (void)rec_int(drv::make<rec_int>());
  drv::lv<rec_int>() = drv::clv<rec_int>();
  drv::lv<rec_int>() = drv::make<rec_int>();
  (void)drv::lv<rec_int>().get();
  (void)drv::clv<rec_int>().get();
  (void)rec_str(drv::make<std::string>());
  drv::lv<rec_str>() = drv::clv<rec_str>();
  drv::lv<rec_str>() = drv::make<rec_str>();
}

// ---------------------------------------------------------------- shared_ptr / unique_ptr
DRV(drv_cmp_shared_ptr)
{
  DRV_EQ_NE_LT(sp_int)
  (void)(drv::clv<sp_int>() == drv::clv<sp_cint>());
  (void)(drv::clv<sp_int>() != drv::clv<sp_cint>());
  (void)(drv::clv<sp_int>() < drv::clv<sp_cint>());
  (void)fcppt::shared_ptr_hash<sp_int>{}(drv::clv<sp_int>());
  DRV_STD_HASH(sp_int)
  DRV_FCPPT_HASH(sp_int)
  swap(drv::lv<sp_int>(), drv::lv<sp_int>());
}
// fcppt::unique_ptr offers no comparison operators and no hash (see unique_ptr_decl.hpp)

// ---------------------------------------------------------------- optional / either / variant
DRV(drv_cmp_optional)
{
  DRV_EQ_NE_LT(opt_int)
  DRV_EQ_NE_LT(opt_str)
  DRV_EQ_NE_LT(fcppt::optional::object<opt_int>)
  DRV_EQ_NE(fcppt::optional::object<ref_int>)
}
DRV(drv_cmp_either)
{
  DRV_EQ_NE(eith)
  using eith_sl = fcppt::either::object<std::string, long>;
  DRV_EQ_NE(eith_sl)
}
DRV(drv_cmp_variant)
{
  DRV_EQ_NE_LT(var)
  (void)fcppt::variant::compare(drv::clv<var>(), drv::clv<var>(), drv::clv<poly_compare>());
  (void)fcppt::variant::compare(drv::clv<var>(), drv::clv<var>(), std::equal_to<>{});
  using var1 = fcppt::variant::object<int>;
  DRV_EQ_NE_LT(var1)
  (void)fcppt::variant::compare(
      drv::clv<var1>(), drv::clv<var1>(), drv::clv<drv::fn<bool(int, int)>>());
}

// ---------------------------------------------------------------- tuple / array / record
DRV(drv_cmp_tuple)
{
  DRV_EQ_NE(tup)
  DRV_EQ_NE(fcppt::tuple::object<>)
  using tup_s = fcppt::tuple::object<std::string, opt_int>;
  DRV_EQ_NE(tup_s)
}
DRV(drv_cmp_array)
{
  DRV_EQ_NE(arr)
  using arr_s = fcppt::array::object<std::string, 2>;
  DRV_EQ_NE(arr_s)
  using arr_0 = fcppt::array::object<int, 0>;
  DRV_EQ_NE(arr_0)
}
DRV(drv_cmp_record)
{
  DRV_EQ_NE(rec)
  (void)(drv::clv<rec>() == drv::clv<rec_perm>());
  (void)(drv::clv<rec>() != drv::clv<rec_perm>());
}

// ---------------------------------------------------------------- math
DRV(drv_cmp_math_vector)
{
  DRV_ALL6(vec3)
  using vec1 = fcppt::math::vector::static_<int, 1>;
  DRV_ALL6(vec1)
  using vecf = fcppt::math::vector::static_<float, 2>;
  DRV_ALL6(vecf)
  DRV_STD_HASH(vec3)
  DRV_FCPPT_HASH(vec3)
  (void)fcppt::math::detail::hash<vec3>{}(drv::clv<vec3>());
  (void)fcppt::math::detail::array_equal(drv::clv<vec3>(), drv::clv<vec3>());
  (void)fcppt::math::detail::array_less(drv::clv<vec3>(), drv::clv<vec3>());
}
DRV(drv_cmp_math_dim)
{
  DRV_ALL6(dim2)
  using dim3 = fcppt::math::dim::static_<unsigned, 3>;
  DRV_ALL6(dim3)
  DRV_STD_HASH(dim2)
  DRV_FCPPT_HASH(dim2)
  (void)fcppt::math::detail::hash<dim2>{}(drv::clv<dim2>());
  (void)fcppt::math::detail::array_equal(drv::clv<dim2>(), drv::clv<dim2>());
  (void)fcppt::math::detail::array_less(drv::clv<dim2>(), drv::clv<dim2>());
}
DRV(drv_cmp_math_matrix)
{
  DRV_EQ_NE(mat22)
  using mat23 = fcppt::math::matrix::static_<float, 2, 3>;
  DRV_EQ_NE(mat23)
  DRV_STD_HASH(mat22)
  DRV_FCPPT_HASH(mat22)
  (void)fcppt::math::detail::hash<mat22>{}(drv::clv<mat22>());
  (void)fcppt::math::detail::array_equal(drv::clv<mat22>(), drv::clv<mat22>());
}
DRV(drv_cmp_math_box)
{
  DRV_EQ_NE_LT(box2)
  using box3u = fcppt::math::box::object<unsigned, 3>;
  DRV_EQ_NE_LT(box3u)
}
DRV(drv_cmp_math_sphere)
{
  DRV_EQ_NE(sphere2)
  using sphere3f = fcppt::math::sphere::object<float, 3>;
  DRV_EQ_NE(sphere3f)
}

// ---------------------------------------------------------------- containers
DRV(drv_cmp_bitfield)
{
  DRV_EQ_NE(bitf)
  (void)fcppt::container::bitfield::hash<bitf>{}(drv::clv<bitf>());
  DRV_STD_HASH(bitf)
  DRV_FCPPT_HASH(bitf)
  using bitf8 = fcppt::container::bitfield::object<en, std::uint8_t>;
  DRV_EQ_NE(bitf8)
  DRV_STD_HASH(bitf8)
}
DRV(drv_cmp_enum_array)
{
  DRV_EQ_NE(earr)
  using earr_s = fcppt::enum_::array<en, std::string>;
  DRV_EQ_NE(earr_s)
}
DRV(drv_cmp_grid)
{
  DRV_ALL6(grid2)
}
DRV(drv_cmp_tree)
{
  DRV_EQ_NE(tree)
  using tree_s = fcppt::container::tree::object<std::string>;
  DRV_EQ_NE(tree_s)
}
DRV(drv_cmp_raw_vector)
{
  DRV_ALL6(rawvec)
}

// ---------------------------------------------------------------- generic hashing
DRV(drv_cmp_range_hash)
{
  (void)fcppt::range::hash<std::vector<int>>{}(drv::clv<std::vector<int>>());
  (void)fcppt::range::hash<std::list<std::string>>{}(drv::clv<std::list<std::string>>());
  (void)fcppt::range::hash<std::array<int, 3>>{}(drv::clv<std::array<int, 3>>());
  (void)fcppt::range::hash<arr>{}(drv::clv<arr>());
  (void)fcppt::range::hash<std::vector<st_int>>{}(drv::clv<std::vector<st_int>>());
  (void)fcppt::range::hash<std::vector<vec3>>{}(drv::clv<std::vector<vec3>>());
}
DRV(drv_cmp_hash)
{
  (void)fcppt::hash_combine(drv::clv<std::size_t>(), drv::clv<std::size_t>());
  DRV_FCPPT_HASH(int)
  DRV_FCPPT_HASH(std::string)
  DRV_FCPPT_HASH(en)
}

// ---------------------------------------------------------------- type_iso
DRV(drv_cmp_type_iso_strong_typedef)
{
  (void)fcppt::type_iso::decorate<st_int>(drv::clv<int>());
  (void)fcppt::type_iso::undecorate(drv::clv<st_int>());
  (void)fcppt::type_iso::decorate<st_string>(drv::clv<std::string>());
  (void)fcppt::type_iso::undecorate(drv::clv<st_string>());
  (void)fcppt::type_iso::decorate<st_nested>(drv::clv<int>());
  (void)fcppt::type_iso::undecorate(drv::clv<st_nested>());
  (void)fcppt::type_iso::transform<st_int>::decorate(drv::clv<int>());
  (void)fcppt::type_iso::transform<st_int>::undecorate(drv::clv<st_int>());
  (void)fcppt::type_iso::decorate<int>(drv::clv<int>());
  (void)fcppt::type_iso::undecorate(drv::clv<int>());
}
DRV(drv_cmp_type_iso_enum)
{
  (void)fcppt::type_iso::decorate<en>(drv::clv<int>());
  (void)fcppt::type_iso::undecorate(drv::clv<en>());
  (void)fcppt::type_iso::transform<en>::decorate(drv::clv<int>());
  (void)fcppt::type_iso::transform<en>::undecorate(drv::clv<en>());
  (void)fcppt::type_iso::decorate<st_enum>(drv::clv<int>());
  (void)fcppt::type_iso::undecorate(drv::clv<st_enum>());
}
