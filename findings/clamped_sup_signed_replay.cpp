#include <fcppt/container/grid/clamped_sup_signed.hpp>
#include <fcppt/container/grid/pos.hpp>
#include <fcppt/container/grid/dim.hpp>
#include <fcppt/math/vector/static.hpp>
#include <fcppt/math/dim/static.hpp>
#include <iostream>
int main()
{
  fcppt::container::grid::pos<int, 1> const p{0};
  fcppt::container::grid::dim<unsigned, 1> const d{0x80000000U};
  auto const r = fcppt::container::grid::clamped_sup_signed<unsigned>(p, d);
  std::cout << r.get().x() << "\n";
}
