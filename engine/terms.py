"""Normalised terms over fact nodes: access paths and boolean conditions compared structurally.

A term is a hashable tuple:
  ("v", decl_id, name)      variable / parameter / binding
  ("this",)
  ("m", base, field)        member access
  ("c", qn, recv, (args))   call of a resolved callee (template arguments stripped from qn)
  ("u", op, e) ("b", op, l, r) ("k", const) ("cast", type, e)
  ("?", n)                  anything else (unique)
Value-category wrappers (std::move / std::forward / fcppt::move_if_rvalue / move_if / make_ref /
make_cref / reference::get / static_cast to the same object) are transparent.
"""
from . import facts as F

TRANSPARENT_CALLS = {
    "std::move", "std::forward", "fcppt::move_if_rvalue", "fcppt::move_if",
    "fcppt::detail::move_if::execute", "std::as_const", "std::addressof",
    "fcppt::make_ref", "fcppt::make_cref", "fcppt::reference::get", "std::ref", "std::cref",
    "std::reference_wrapper::get", "fcppt::reference_to_const",
}

_uid = [0]


def _unique():
    _uid[0] += 1
    return ("?", _uid[0])


def callee_qn(unit, node):
    c = node.get("callee")
    if c is None:
        return None
    d = unit.decls.get(c)
    if d is None:
        return None
    return F.strip_targs(d["qn"])


def callee_decl(unit, node):
    c = node.get("callee")
    if c is None:
        return None
    return unit.decls.get(c)


def unwrap(unit, n):
    """Strip syntactic wrappers that do not change the denoted object."""
    while n is not None:
        k = n.get("k")
        if k == "initlist" and len(n.get("ch", [])) == 1:
            n = n["ch"][0]
        elif k == "icast" and n.get("ck") in ("DerivedToBase", "UncheckedDerivedToBase", "NoOp"):
            n = n["e"]
        elif k == "cast" and n.get("ck") in ("NoOp", "DerivedToBase", "LValueToRValue", "ConstructorConversion"):
            n = n["e"]
        elif k == "call" and callee_qn(unit, n) in TRANSPARENT_CALLS:
            if n.get("recv") is not None:
                n = n["recv"]
            elif n.get("args"):
                n = n["args"][0]
            else:
                return n
        elif k == "construct" and n.get("ctor") in ("copy", "move") and len(n.get("args", [])) == 1 and n.get("elidable"):
            n = n["args"][0]
        elif k == "unop" and n.get("op") == "&" and False:
            n = n["e"]
        else:
            return n
    return n


def norm(unit, n, defs=None):
    """Structural term of node n. defs: optional {decl_id: term} substitution for aliases."""
    n = unwrap(unit, n)
    if n is None:
        return ("k", None)
    k = n.get("k")
    if k == "ref":
        if n.get("dk") == "enumerator" or (n.get("dk") in ("global",) and "c" in n):
            return ("k", n.get("qn") or n.get("c"))
        if defs is not None and n["id"] in defs:
            return defs[n["id"]]
        return ("v", n["id"], n.get("name"))
    if k == "this":
        return ("this",)
    if k == "member":
        return ("m", norm(unit, n.get("base"), defs), n.get("name"))
    if k == "lit":
        if "c" in n:
            return ("k", n["c"])
        if "char" in n:
            return ("k", "char:%d" % n["char"])
        if "str" in n:
            return ("k", "str:" + n["str"])
        if n.get("nullptr"):
            return ("k", "nullptr")
        return _unique()
    if "c" in n and k not in ("call", "construct"):
        return ("k", n["c"])
    if k == "call":
        qn = callee_qn(unit, n)
        if qn is None:
            fnode = n.get("fn")
            qn = ("indirect", norm(unit, fnode, defs)) if fnode is not None else "?"
        recv = norm(unit, n["recv"], defs) if n.get("recv") is not None else None
        d = callee_decl(unit, n)
        targs = tuple(d.get("targs", [])) if d and qn in ("fcppt::variant::get_unsafe", "fcppt::variant::holds_type", "fcppt::variant::object::get_unsafe") else ()
        return ("c", qn, recv, tuple(norm(unit, a, defs) for a in n.get("args", [])), targs)
    if k == "unop":
        if n.get("op") == "!" :
            return ("u", "!", norm(unit, n["e"], defs))
        return ("u", n.get("op"), norm(unit, n["e"], defs))
    if k == "binop":
        return ("b", n.get("op"), norm(unit, n["l"], defs), norm(unit, n["r"], defs))
    if k in ("icast",):
        return norm(unit, n["e"], defs)
    if k == "cast":
        return ("cast", unit.ty(n.get("to")), norm(unit, n["e"], defs))
    if k == "construct":
        return ("new", n.get("cls"), tuple(norm(unit, a, defs) for a in n.get("args", [])))
    if k == "subscript":
        return ("b", "[]", norm(unit, n["base"], defs), norm(unit, n["idx"], defs))
    if k == "cond":
        return ("cond", norm(unit, n["c_"], defs), norm(unit, n["then"], defs), norm(unit, n["else"], defs))
    return _unique()


def const_local_defs(unit, fn):
    """{local id: term} for locals of fn that are initialised once and never written afterwards (declared const, or
    simply not assigned / incremented / passed by non-const reference): substituting them makes a rule see the same
    expression whether or not the author named an intermediate value."""
    if "_cdefs" in fn:
        return fn["_cdefs"]
    from . import facts as F
    written = set()
    for n in F.walk(fn.get("body"), into_lambdas=True):
        k = n.get("k")
        tgt = None
        if k in ("assign", "compound_assign"):
            tgt = n.get("l")
        elif k == "unop" and n.get("op") in ("++", "--", "&"):
            tgt = n.get("e")
        elif k == "call":
            d = callee_decl(unit, n)
            prefs = (d or {}).get("prefs", [])
            for i, a in enumerate(n.get("args", [])):
                # an indirect call (function pointer / pointer to member) has no declaration here: assume it may write
                if (d is None) or (i < len(prefs) and prefs[i] in ("lref", "rref")):
                    x = unwrap(unit, a)
                    if x is not None and x.get("k") == "ref":
                        written.add(x.get("id"))
            if n.get("recv") is not None and d is not None and not d.get("const", True):
                tgt = n.get("recv")
        if tgt is not None:
            x = unwrap(unit, tgt)
            while x is not None and x.get("k") in ("member", "subscript"):
                x = unwrap(unit, x.get("base"))
            if x is not None and x.get("k") == "ref":
                written.add(x.get("id"))
    defs = {}
    for v in F.walk(fn.get("body"), into_lambdas=False):
        if v.get("k") == "var" and v.get("init") is not None and "id" in v and v["id"] not in written:
            ty = unit.ty(v.get("t")) or ""
            if "const" in ty or v["id"] not in written:
                defs[v["id"]] = norm(unit, v["init"], defs)
        elif v.get("k") == "var" and v.get("init") is not None and "id" in v and v.get("ref") in ("lref", "rref"):
            # a reference local names an lvalue: its BINDING never changes, whatever is written through it. It stands for its
            # initialiser as long as that expression keeps denoting the same object: its variables are references
            # themselves (never re-bound), `this`, or never written
            stable = True
            for m in F.walk(v["init"], into_lambdas=False):
                if m.get("k") == "ref" and m.get("dk") in ("local", "param") and m.get("ref") not in ("lref", "rref") and m.get("id") in written:
                    stable = False
                if m.get("k") in ("lambda", "assign", "compound_assign") or (m.get("k") == "unop" and m.get("op") in ("++", "--")):
                    stable = False
            if stable:
                defs[v["id"]] = norm(unit, v["init"], defs)
    fn["_cdefs"] = defs
    return defs


def return_term(unit, fn, subst=True):
    """the term a function returns, with `if (c) return a; return b;` (and if / else with two returns) read as `c ? a : b`
    and a negated condition folded into the order of the branches: one view for both spellings. None if the function has
    another shape."""
    from . import facts as F
    nf = (lambda n: snorm(unit, fn, n)) if subst else (lambda n: norm(unit, n))
    body = fn.get("body") or {}
    stmts = [s_ for s_ in (body.get("ch", []) if body.get("k") == "compound" else [body]) if s_.get("k") not in ("decl", "null", "expr:NullStmt")]
    rets = [r for r in F.walk(body, into_lambdas=False) if r.get("k") == "return"]

    def only_return(st):
        if st is None:
            return None
        if st.get("k") == "return":
            return st
        if st.get("k") == "compound" and len(st.get("ch", [])) == 1:
            return only_return(st["ch"][0])
        return None

    def fold(c, a, b):
        if isinstance(c, tuple) and len(c) == 3 and c[0] == "u" and c[1] == "!":
            return ("cond", c[2], b, a)
        return ("cond", c, a, b)
    if len(rets) == 1 and rets[0].get("e") is not None:
        return nf(rets[0]["e"])
    if len(rets) == 2 and stmts:
        last = stmts[-1]
        if last.get("k") == "return" and len(stmts) >= 2 and stmts[-2].get("k") == "if" and stmts[-2].get("else") is None:
            r1 = only_return(stmts[-2].get("then"))
            if r1 is not None and r1.get("e") is not None and last.get("e") is not None:
                return fold(nf(stmts[-2]["cond"]), nf(r1["e"]), nf(last["e"]))
        if last.get("k") == "if" and last.get("else") is not None:
            r1, r2 = only_return(last.get("then")), only_return(last.get("else"))
            if r1 is not None and r2 is not None and r1.get("e") is not None and r2.get("e") is not None:
                return fold(nf(last["cond"]), nf(r1["e"]), nf(r2["e"]))
    return None


def walk_through_locals(unit, fn, node, depth=0):
    """every node of `node` and, for each never-rewritten local it refers to, of that local's initialiser (transitively):
    lets a structural rule see `sizeof(T)` whether it is written in place or first given a name"""
    from . import facts as F
    defs = const_local_defs(unit, fn)
    inits = fn.get("_cinit_nodes")
    if inits is None:
        inits = {}
        for v in F.walk(fn.get("body"), into_lambdas=True):
            if v.get("k") == "var" and v.get("init") is not None and v.get("id") in defs:
                inits[v["id"]] = v["init"]
        fn["_cinit_nodes"] = inits
    seen = set()

    def go(n, d):
        for m in F.walk(n):
            yield m
            if m.get("k") == "ref" and m.get("id") in inits and m["id"] not in seen and d < 4:
                seen.add(m["id"])
                for x in go(inits[m["id"]], d + 1):
                    yield x
    return go(node, depth)


def subst_refs(n, mapping):
    """copy of the facts AST `n` in which every reference to a declaration in `mapping` (decl id -> node) is replaced by
    that node; keys starting with '_' (indices added by the loader) are shared, not copied"""
    if isinstance(n, list):
        return [subst_refs(x, mapping) for x in n]
    if not isinstance(n, dict):
        return n
    if n.get("k") == "ref" and n.get("id") in mapping:
        return mapping[n["id"]]
    return {k: (v if k.startswith("_") else subst_refs(v, mapping)) for (k, v) in n.items()}


def inline_local_lambda_calls(unit, stmts):
    """the statement list with (a) declarations of local lambdas removed and (b) every STATEMENT that is a call of such a
    lambda replaced by the lambda's body, parameters replaced by the argument expressions. Only non-generic lambdas
    (one call operator) whose body does not return a value are inlined; anything else is left as it is. Lets a
    statement-shaped rule see `auto const f{[](L &l, P p){ for (auto &c : l) c.x = p; }}; f(a, b);` as the loop it stands for."""
    lams = {}
    for st in stmts:
        if st is not None and st.get("k") == "decl":
            for v in st.get("ch", []):
                li = unwrap(unit, v.get("init")) if v.get("k") == "var" and v.get("init") is not None else None
                if li is not None and li.get("k") == "lambda" and len(li.get("ops", [])) == 1:
                    lams[v["id"]] = li
    if not lams:
        return list(stmts)
    from . import facts as F
    out = []
    for st in stmts:
        if st is None:
            continue
        c0 = unwrap(unit, st) if st.get("k") == "call" else None
        r0 = unwrap(unit, c0.get("recv")) if c0 is not None and c0.get("recv") is not None else None
        if c0 is not None and c0.get("opcall") == "()" and r0 is not None and r0.get("k") == "ref" and r0.get("id") in lams:
            op = lams[r0["id"]]["ops"][0]
            ps, args = op.get("params", []), c0.get("args", [])
            body = op.get("body") or {}
            has_ret = any(x.get("k") == "return" and x.get("e") is not None for x in F.walk(body, into_lambdas=False))
            if len(ps) == len(args) and not has_ret:
                b = subst_refs(body, {p["id"]: a for (p, a) in zip(ps, args)})
                out.extend(b.get("ch", []) if b.get("k") == "compound" else [b])
                continue
        if st.get("k") == "decl" and st.get("ch") and all(v.get("k") == "var" and v.get("id") in lams for v in st.get("ch", [])):
            continue
        out.append(st)
    return out


def resolve_lambda(unit, fn, node):
    """the lambda expression a function-object argument denotes: the lambda itself, or the initialiser of the never-rewritten
    local it names (through by-value copies); None otherwise"""
    from . import facts as F
    n = unwrap(unit, node)
    for _ in range(4):
        if n is None:
            return None
        if n.get("k") == "lambda":
            return n
        if n.get("k") == "construct" and len(n.get("args", [])) == 1:
            n = unwrap(unit, n["args"][0])
            continue
        if n.get("k") in ("cast", "icast") and n.get("e") is not None:
            n = unwrap(unit, n["e"])
            continue
        if n.get("k") == "ref" and n.get("dk") == "local" and n.get("id") in const_local_defs(unit, fn):
            inits = [v for v in F.walk(fn.get("body"), into_lambdas=True) if v.get("k") == "var" and v.get("id") == n.get("id") and v.get("init") is not None]
            if len(inits) != 1:
                return None
            n = unwrap(unit, inits[0]["init"])
            continue
        return None
    return None


def snorm(unit, fn, n):
    """norm() with the function's never-rewritten locals replaced by their initialisers"""
    return norm(unit, n, const_local_defs(unit, fn))


def roots(term, out=None):
    """decl ids of variables occurring in a term ('this' is root -1)"""
    if out is None:
        out = set()
    if not isinstance(term, tuple) or not term:
        return out
    if term[0] == "v":
        out.add(term[1])
        return out
    if term[0] == "this":
        out.add(-1)
        return out
    for x in term[1:]:
        if isinstance(x, tuple):
            roots(x, out)
    return out


def show(term):
    if not isinstance(term, tuple) or not term:
        return str(term)
    t = term[0]
    if t == "v":
        return str(term[2])
    if t == "this":
        return "this"
    if t == "m":
        b = show(term[1])
        return ("%s.%s" % (b, term[2])) if b != "this" else term[2]
    if t == "k":
        return str(term[1])
    if t == "c":
        qn = term[1] if isinstance(term[1], str) else "(*)"
        short = qn.split("::")[-1]
        args = ", ".join(show(a) for a in term[3])
        if term[2] is not None:
            return "%s.%s(%s)" % (show(term[2]), short, args)
        return "%s(%s)" % (short, args)
    if t == "u":
        return "%s%s" % (term[1], show(term[2]))
    if t == "b":
        return "(%s %s %s)" % (show(term[2]), term[1], show(term[3]))
    if t == "cast":
        return "cast<%s>(%s)" % (term[1], show(term[2]))
    if t == "new":
        return "%s{%s}" % (term[1], ", ".join(show(a) for a in term[2]))
    if t == "cond":
        return "(%s ? %s : %s)" % (show(term[1]), show(term[2]), show(term[3]))
    return "_"
