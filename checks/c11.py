"""C11 Intrusive list / signal membership equals the set of live connections (DESIGN.md §6 C11).

Ring invariant R: x.next_->prev_ == x and x.prev_->next_ == x for every hook including list heads.
Decided: every member of intrusive::base and intrusive::list preserves R (ring-surgery
discipline): link writes are classified into BRIDGE / COPYLINKS / ADOPT / SELFLOOP / INSERT events
and each path must order them correctly; anything unclassified is reported. Signal: operator()
visits connections() in list order folding from the initial value; the unregister destructor is
unlink, then the callback exactly once, never throwing past terminate.
Not decided: the history-level statement beyond R.
"""
from engine import facts as F
from engine import load
from engine import lrules as L
from engine import terms as T

LEVEL = "other"
BASE = "fcppt::intrusive::base"
LIST = "fcppt::intrusive::list"
THIS = ("this",)


flatten_paths = L.flatten_paths


def link_events(u, fn, stmts):
    """classify the link writes of a statement sequence (plus ctor initialisers) into events"""
    raw = []   # (object X whose field is written, field, value term, loc)
    for i in fn.get("inits", []) if stmts is None else []:
        pass
    seq = []
    for s in stmts:
        for n in F.walk(s):
            k = n.get("k")
            if k == "assign":
                f = L.field_of(u, n.get("l"))
                if f and f[1] in ("next_", "prev_"):
                    seq.append(("W", f[0], f[1], T.norm(u, n.get("r")), u.loc(n["loc"])))
            elif k == "call":
                d = T.callee_decl(u, n)
                if d is None:
                    continue
                qn = F.strip_targs(d["qn"])
                if qn == BASE + "::unlink" and n.get("recv") is not None:
                    seq.append(("UNLINK", T.norm(u, n["recv"]), u.loc(n["loc"])))
                elif qn == BASE + "::operator=" and n.get("recv") is not None:
                    seq.append(("MOVEHOOK", T.norm(u, n["recv"]), T.norm(u, (n.get("args") or [None])[0]), u.loc(n["loc"])))
                elif qn in ("std::swap",) and any(L.field_of(u, a) and L.field_of(u, a)[1] in ("next_", "prev_") for a in n.get("args", [])):
                    seq.append(("UNKNOWN", "std::swap on link fields", u.loc(n["loc"])))
            elif k == "construct" and n.get("cls") == BASE and n.get("ctor") == "move":
                seq.append(("MOVEHOOK", None, T.norm(u, (n.get("args") or [None])[0]), u.loc(n["loc"])))
    return seq


def addr_of(term):
    return ("u", "&", term)


def self_ref(X):
    return THIS if X == THIS else addr_of(X)


def check_insert_ctor(seq):
    """base(list&): splice this before the head H: this.prev_ = H.prev_; this.next_ = &H;
    H.prev_->next_ = this; H.prev_ = this (in that order)."""
    ws = [e for e in seq if e[0] == "W"]
    H = None
    for e in ws:
        if e[1] == THIS and e[2] == "next_" and isinstance(e[3], tuple) and e[3][0] == "u" and e[3][1] == "&":
            H = e[3][2]
    if H is None:
        return None
    probs = []
    want = [(THIS, "prev_", ("m", H, "prev_")), (THIS, "next_", addr_of(H)),
            (("m", H, "prev_"), "next_", THIS), (H, "prev_", THIS)]
    got = [(e[1], e[2], e[3]) for e in ws]
    for w in want:
        if w not in got:
            probs.append(("insertion constructor misses the link write %s.%s = %s" % (T.show(w[0]), w[1], T.show(w[2])), ws[0][4] if ws else ""))
    extra = [g for g in got if g not in want]
    for g in extra:
        probs.append(("insertion constructor has an unexpected link write %s.%s = %s" % (T.show(g[0]), g[1], T.show(g[2])), ""))
    if not probs and got.index(want[2]) > got.index(want[3]):
        probs.append(("insertion constructor overwrites head.prev_ before linking the old last element to this", ""))
    return probs


def check_sequence(seq, is_ctor, is_dtor, owner):
    """Returns list of (problem text, loc). owner: term of the object the function belongs to."""
    if is_ctor:
        r = check_insert_ctor(seq)
        if r is not None:
            return r
    problems = []
    bridged = set()     # objects whose neighbours were bridged around them
    copied = {}         # T -> X : T took X's links
    adopted = set()
    looped = set()
    wr = {}
    for ev in seq:
        if ev[0] == "UNKNOWN":
            problems.append((ev[1], ev[2]))
            continue
        if ev[0] == "UNLINK":
            bridged.add(ev[1])
            looped.add(ev[1])
            continue
        if ev[0] == "MOVEHOOK":
            continue
        _, X, fld, val, loc = ev
        other = "prev_" if fld == "next_" else "next_"
        # bridge: X.next_->prev_ = X.prev_   i.e. object written is deref(X.next_), field prev_
        if isinstance(X, tuple) and X[0] == "m" and X[2] in ("next_", "prev_") and X[2] != fld:
            Y = X[1]
            if val == ("m", Y, fld):
                wr.setdefault(("bridge", Y), set()).add(fld)
                if wr[("bridge", Y)] == {"next_", "prev_"}:
                    bridged.add(Y)
                continue
            if val == self_ref(Y):
                # Y.prev_->next_ = &Y : neighbours adopt Y
                wr.setdefault(("adopt", Y), set()).add(fld)
                if wr[("adopt", Y)] == {"next_", "prev_"}:
                    adopted.add(Y)
                    if Y not in copied and not is_ctor:
                        problems.append(("neighbours are pointed at %s although it did not take over anybody's links" % T.show(Y), loc))
                continue
            if is_ctor and val == THIS:
                # insertion constructor: head.prev_->next_ = this
                wr.setdefault(("insert",), set()).add(fld)
                continue
            problems.append(("unclassified write to a neighbour's %s (value %s)" % (fld, T.show(val)), loc))
            continue
        # own-link writes of X
        if val == self_ref(X):
            wr.setdefault(("loop", X), set()).add(fld)
            if wr[("loop", X)] == {"next_", "prev_"}:
                looped.add(X)
            taken = any(src == X and T_ in adopted for T_, src in copied.items())
            if not (X in bridged or taken or is_ctor):
                problems.append(("%s is reset to a self-loop without bridging its neighbours first: the old members keep "
                                 "pointing at it" % T.show(X), loc))
            continue
        if isinstance(val, tuple) and val[0] == "m" and val[2] == fld and val[1] != X:
            # X.prev_ = Y.prev_ : X takes over Y's links
            Y = val[1]
            wr.setdefault(("copy", X, Y), set()).add(fld)
            if wr[("copy", X, Y)] == {"next_", "prev_"}:
                copied[X] = Y
            if not is_ctor and X not in bridged:
                problems.append(("%s overwrites its own %s without having bridged its old neighbours" % (T.show(X), fld), loc))
            continue
        if is_ctor and val == THIS:
            wr.setdefault(("insert",), set()).add(fld)
            continue
        problems.append(("unclassified write to %s.%s (value %s)" % (T.show(X), fld, T.show(val)), loc))
    for T_, X in copied.items():
        if T_ not in adopted:
            problems.append(("%s took over the links of %s but its new neighbours are not pointed back at it" % (T.show(T_), T.show(X)), ""))
        if X not in looped:
            problems.append(("%s was moved from but is not reset to a self-loop" % T.show(X), ""))
    if is_dtor and owner not in bridged:
        problems.append(("destructor does not bridge the neighbours of the dying hook", ""))
    return problems


def main(rep, tier, only):
    db = load.load(tier, lib=False, drivers=["drv_containers"])
    rep.extra.update(db.stats())
    rep.rule("RING", "every path of every member of intrusive::base / intrusive::list orders its link writes as "
                     "bridge-before-overwrite, takeover = copy links + adopt neighbours + reset source; every link write "
                     "is classified", floor=4)
    rep.rule("RING-CTOR", "constructors establish the ring: default = self-loop, insertion = symmetric splice before the head, "
                          "move = takeover of the source's links + source reset", floor=3)
    rep.rule("LIST-MOVE", "list move construction / assignment move the head hook only when the source is non-empty, and an "
                          "empty source leaves this list's former members bridged (unlink), not dangling", floor=2)
    rep.rule("SIG-ORDER", "signal::operator() visits connections() in list order, folding from the initial value / calling every item", floor=2)
    rep.rule("SIG-UNREG", "unregister connection destructor: unlink first, then the unregister callback exactly once, "
                          "exceptions end in std::terminate", floor=1)
    nb = 0
    for rec in (BASE, LIST):
        for fn in L.method_fns(db, rec):
            u = fn["_unit"]
            name = F.fn_name(fn).split("::")[-1]
            is_ctor = fn.get("kind") == "ctor"
            is_dtor = fn.get("kind") == "dtor"
            if fn.get("defaulted") and not (fn.get("body") or {}).get("ch"):
                continue
            key = "%s@%s" % (F.fn_name(fn), ",".join(u.ty(p["t"]) for p in fn.get("params", [])))
            body = fn.get("body") or {}
            init_stmts = []
            if is_ctor:
                # mem-initialisers prev_{X}, next_{Y} count as writes to this
                for i in fn.get("inits", []):
                    if i.get("field") in ("next_", "prev_"):
                        init_stmts.append({"k": "assign", "loc": i["init"].get("loc"), "l": {"k": "member", "field": True, "name": i["field"], "base": {"k": "this"}},
                                           "r": i["init"]})
            paths = flatten_paths(body.get("ch", []))
            allprob = []
            nev = 0
            for (items, conds) in paths:
                seq = link_events(u, fn, init_stmts + items)
                nev += len(seq)
                allprob += check_sequence(seq, is_ctor, is_dtor, THIS)
            rid = "RING-CTOR" if is_ctor else "RING"
            if rec == LIST and not nev and not is_dtor:
                continue
            nb += 1
            if allprob:
                seen = set()
                for (p, loc) in allprob:
                    if (p, loc) in seen:
                        continue
                    seen.add((p, loc))
                    rep.fail(rid, key + "|" + p.split(":")[0][:60], loc or F.primary_site(fn), F.describe(fn), why=p)
            else:
                rep.ok(rid, key, F.primary_site(fn), F.describe(fn), how="ordered", detail={"paths": len(paths), "link_events": nev})
    # ---- LIST-MOVE
    for fn in L.method_fns(db, LIST):
        u = fn["_unit"]
        is_ctor = fn.get("kind") == "ctor"
        if not ((is_ctor and fn.get("ctor_kind") == "move") or fn.get("assign_kind") == "move"):
            continue
        key = F.fn_name(fn) + ("(list&&)" if is_ctor else "")
        paths = flatten_paths((fn.get("body") or {}).get("ch", []))
        probs = []
        moved_somewhere = False
        for (items, conds) in paths:
            seq = link_events(u, fn, items)
            moves = [e for e in seq if e[0] == "MOVEHOOK"]
            # facts on this path: _other.empty() polarity
            empty_pol = None
            for (c, pol) in conds:
                t = T.norm(u, c)
                neg = False
                while isinstance(t, tuple) and t[0] == "u" and t[1] == "!":
                    t = t[2]
                    neg = not neg
                if isinstance(t, tuple) and t[0] == "c" and str(t[1]).endswith("::empty"):
                    empty_pol = pol != neg
            if moves:
                moved_somewhere = True
                if empty_pol is not False:
                    probs.append(("the head hook is moved from a possibly empty source list (moving a self-looped hook corrupts the ring)", moves[0][-1]))
            else:
                ret_self = any(it.get("k") == "return" for it in items)
                selfcmp = any(isinstance(T.norm(u, c), tuple) and "this" in T.show(T.norm(u, c)) and pol for (c, pol) in conds)
                if empty_pol is True and not is_ctor and not selfcmp:
                    # empty source: former members of this list must be bridged
                    if not any(e[0] == "UNLINK" and e[1] == ("m", THIS, "head_") for e in seq):
                        ws = [e for e in seq if e[0] == "W"]
                        probs.append(("move assignment from an empty list does not unlink this list's head: the former members keep "
                                      "pointing at the head and re-enter the list later", ws[0][4] if ws else F.primary_site(fn)))
        if not moved_somewhere:
            probs.append(("the head hook is never moved: membership is not transferred", F.primary_site(fn)))
        if probs:
            for (p, loc) in probs:
                rep.fail("LIST-MOVE", key + "|" + p[:50], loc, F.describe(fn), why=p)
        else:
            rep.ok("LIST-MOVE", key, F.primary_site(fn), F.describe(fn), how="guarded-hook-move")
    # ---- signal
    for fn in db.functions:
        nm = F.fn_name(fn)
        u = fn["_unit"]
        if nm == "fcppt::signal::object::operator()":
            key = "%s|%s" % (nm, "void" if u.ty(fn.get("ret")) == "void" else "combining")
            body = fn.get("body")
            ok = False
            why = "does not iterate base::connections()"
            for n in F.walk(body, into_lambdas=False):
                if n.get("k") == "range_for":
                    rng = T.norm(u, n.get("range"))
                    if "connections" in T.show(rng):
                        calls = [q for (_, _, q) in L.calls_in(u, n.get("body"))]
                        ok = any(q.endswith("::function") for q in calls)
                        why = "loop body does not invoke item.function()"
                if n.get("k") == "call" and T.callee_qn(u, n) == "fcppt::algorithm::fold":
                    args = n.get("args", [])
                    if len(args) == 3 and "connections" in T.show(T.norm(u, args[0])):
                        st = T.show(T.norm(u, args[1]))
                        lam = T.unwrap(u, args[2])
                        inner = [q for op in (lam.get("ops", []) if lam and lam.get("k") == "lambda" else []) for (_, _, q) in L.calls_in(u, op.get("body"))]
                        ok = "_initial" in st and any(q.endswith("::function") for q in inner)
                        why = "fold does not start from the initial value or does not invoke item.function()"
            if ok:
                rep.ok("SIG-ORDER", key, F.primary_site(fn), F.describe(fn), how="list-order")
            else:
                rep.fail("SIG-ORDER", key, F.primary_site(fn), F.describe(fn), why=why)
        if nm.endswith("signal::unregister::detail::concrete_connection::~concrete_connection"):
            items = (fn.get("body") or {}).get("ch", [])
            key = "unregister::concrete_connection::~concrete_connection"
            first = T.unwrap(u, items[0]) if items else None
            ok1 = first is not None and first.get("k") == "call" and T.callee_qn(u, first) == BASE + "::unlink"
            trys = [s for s in items if s.get("k") == "try"]
            ok2 = False
            if len(trys) == 1:
                t = trys[0]
                ncall = len([1 for n in F.walk(t.get("body")) if n.get("k") == "call" and "unregister_" in T.show(T.norm(u, n))])
                allh = [h for h in t.get("handlers", []) if h.get("all")]
                term = allh and any(q == "std::terminate" for (_, _, q) in L.calls_in(u, allh[0].get("body")))
                outside = len([1 for s in items if s.get("k") != "try" for n in F.walk(s) if n.get("k") == "call" and "unregister_" in T.show(T.norm(u, n))])
                ok2 = ncall == 1 and term and outside == 0
            if ok1 and ok2:
                rep.ok("SIG-UNREG", key, F.primary_site(fn), F.describe(fn), how="unlink;callback-once;terminate")
            else:
                rep.fail("SIG-UNREG", key, F.primary_site(fn), F.describe(fn),
                         why="destructor is not `unlink(); try { unregister_(); } catch (...) { std::terminate(); }` (unlink first: %s, single guarded callback: %s)" % (ok1, ok2))
    rep.explanation = ("Ring-surgery discipline over every path of every member of intrusive::base and intrusive::list "
                       "(explicit instantiations in drv_containers); necessary and, given the hook's constructor/destructor "
                       "discipline, sufficient for the ring invariant to be preserved by each operation.")
    rep.trusted = ["clang 14 front end", "members of the hook are only written by intrusive::base / intrusive::list (private fields, friend list)"]
