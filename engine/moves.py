"""Engine M: move / ownership discipline (DESIGN.md §4.7).

M1 use-after-consume: after std::move(x) / std::forward<T>(x) with T not an lvalue reference /
   fcppt::move_if_rvalue<T>(x) with T not an lvalue reference / fcppt::move_if<true>(x) of a
   whole local variable or parameter x, no later read of x in the same function before a
   re-initialisation. Structured, flow-sensitive (if/else union, loops: a consume of a variable
   declared outside the loop is a use on the next iteration). Constructor mem-initialisers are
   part of the constructor's flow, in declaration order.
M2 no raw std::move of forwarded storage: std::move(e) where the root of e is a forwarding
   reference parameter (or a range-for variable / iterator over one).
"""
import re
from . import facts as F
from . import guards as G
from . import terms as T


def consume_target(unit, n):
    """If call node n consumes a whole variable: (decl id, name, how). Else None."""
    if n.get("k") != "call":
        return None
    d = T.callee_decl(unit, n)
    if d is None:
        return None
    qn = F.strip_targs(d["qn"])
    if qn not in ("std::move", "std::forward", "fcppt::move_if_rvalue", "fcppt::move_if"):
        return None
    args = n.get("args", [])
    if not args:
        return None
    a = T.unwrap(unit, args[0])
    if a is not None and a.get("k") != "ref" and n.get("vc") == "x":
        # a PART of a variable reached through accessors / members (x.get_unsafe(), x.first, *x): partial consume
        r = G.root_of(unit, args[0])
        if r is not None and r != -1:
            path = T.show(T.norm(unit, args[0]))
            rn = next((m for m in F.walk(args[0]) if m.get("k") == "ref" and m.get("id") == r), None)
            if rn is not None and rn.get("dk") in ("local", "param") and not (unit.ty(rn.get("t")) or "").startswith("const "):
                return (("part", r, path), "%s (part %s)" % (rn.get("name"), path), qn)
        return None
    if a is None or a.get("k") != "ref" or a.get("dk") not in ("local", "param"):
        return None
    # result type: xvalue means it really is a move
    if n.get("vc") != "x":
        return None
    # moving a variable of reference-to-const or scalar type is harmless; keep class types only
    ty = unit.ty(a.get("t")) or ""
    if ty.startswith("const "):
        return None
    if G.is_integer_type(ty) or ty in ("float", "double", "long double") or ty.endswith("*"):
        return None
    return (a["id"], a.get("name"), qn)


class State:
    def __init__(self):
        self.moved = {}  # decl id -> (site, how)


def m1_function(unit, fn, report):
    """report(var_name, move_site, use_site, how)"""
    moved = {}
    for i in fn.get("inits", []):
        _expr(unit, i.get("init"), moved, report, fn)
    _stmt(unit, fn.get("body"), moved, report, fn, set())


def _declared_in(node):
    ids = set()
    for n in F.walk(node, into_lambdas=False):
        if n.get("k") == "var":
            ids.add(n["id"])
    return ids


def _stmt(unit, s, moved, report, fn, loopvars):
    if s is None:
        return
    k = s.get("k")
    if k in ("compound", "attributed"):
        for c in s.get("ch", []):
            _stmt(unit, c, moved, report, fn, loopvars)
        return
    if k == "decl":
        for v in s.get("ch", []):
            if v.get("k") == "var":
                if v.get("init") is not None:
                    _expr(unit, v["init"], moved, report, fn)
                moved.pop(v["id"], None)
                for k2 in [x for x in moved if isinstance(x, tuple) and x[1] == v["id"]]:
                    moved.pop(k2, None)
        return
    if k == "if":
        if s.get("init") is not None:
            _stmt(unit, s["init"], moved, report, fn, loopvars)
        _expr(unit, s.get("cond"), moved, report, fn)
        m1 = dict(moved)
        m2 = dict(moved)
        _stmt(unit, s.get("then"), m1, report, fn, loopvars)
        _stmt(unit, s.get("else"), m2, report, fn, loopvars)
        t_exit = _always_exits(s.get("then"))
        e_exit = s.get("else") is not None and _always_exits(s.get("else"))
        moved.clear()
        if not t_exit:
            moved.update(m1)
        if not e_exit:
            moved.update(m2)
        return
    if k in ("while", "for", "do", "range_for"):
        outer = set(moved)
        if k == "for" and s.get("init") is not None:
            if s["init"].get("k") in ("decl",):
                _stmt(unit, s["init"], moved, report, fn, loopvars)
            else:
                _expr(unit, s["init"], moved, report, fn)
        if k == "range_for":
            _expr(unit, s.get("range"), moved, report, fn)
        inner = _declared_in(s.get("body")) | (_declared_in(s.get("var")) if s.get("var") else set())
        # two passes over the body: the second pass sees the consumes of the first (next iteration)
        for _ in range(2):
            if s.get("cond") is not None:
                _expr(unit, s["cond"], moved, report, fn)
            _stmt(unit, s.get("body"), moved, report, fn, loopvars)
            if s.get("inc") is not None:
                _expr(unit, s["inc"], moved, report, fn)
            for i in inner:
                moved.pop(i, None)
        return
    if k == "return":
        _expr(unit, s.get("e"), moved, report, fn)
        return
    if k == "switch":
        _expr(unit, s.get("cond"), moved, report, fn)
        base = dict(moved)
        acc = dict(moved)
        body = s.get("body")
        for c in (body.get("ch", []) if body and body.get("k") == "compound" else [body]):
            if c is not None and c.get("k") in ("case", "default"):
                cur = dict(base)
                _stmt(unit, c.get("sub"), cur, report, fn, loopvars)
                acc.update(cur)
                base_cur = cur
            elif c is not None:
                _stmt(unit, c, acc, report, fn, loopvars)
        moved.clear()
        moved.update(acc)
        return
    if k in ("case", "default"):
        _stmt(unit, s.get("sub"), moved, report, fn, loopvars)
        return
    if k == "try":
        _stmt(unit, s.get("body"), moved, report, fn, loopvars)
        for h in s.get("handlers", []):
            _stmt(unit, h.get("body"), dict(moved), report, fn, loopvars)
        return
    if k in ("break", "continue", "null"):
        return
    _expr(unit, s, moved, report, fn)


def _always_exits(s):
    if s is None:
        return False
    k = s.get("k")
    if k in ("return", "break", "continue", "throw"):
        return True
    if k in ("compound", "attributed"):
        return any(_always_exits(c) for c in s.get("ch", []))
    if k == "if":
        return _always_exits(s.get("then")) and s.get("else") is not None and _always_exits(s.get("else"))
    return False


def _expr(unit, n, moved, report, fn):
    """evaluate reads first (children), then record consumes of this full expression"""
    if n is None:
        return
    consumes = []
    _reads(unit, n, moved, report, fn, consumes, top=True)
    for (vid, name, how, site) in consumes:
        moved[vid] = (site, how, name)


def _reads(unit, n, moved, report, fn, consumes, top=False):
    if n is None:
        return
    if isinstance(n, list):
        for x in n:
            _reads(unit, x, moved, report, fn, consumes)
        return
    k = n.get("k")
    if k in ("compound", "decl", "if", "while", "for", "do", "range_for", "return", "switch", "try"):
        _stmt(unit, n, moved, report, fn, set())
        return
    if k == "call":
        ct = consume_target(unit, n)
        if ct is not None:
            vid, name, how = ct
            if vid in moved:
                report(name, moved[vid][0], unit.loc(n.get("loc")), moved[vid][1], "moved again")
            if not isinstance(vid, tuple):
                for k2 in [x for x in moved if isinstance(x, tuple) and x[1] == vid]:
                    report(name, moved[k2][0], unit.loc(n.get("loc")), moved[k2][1], "moved as a whole after its part %s was moved" % k2[2])
            elif vid[1] in moved:
                report(name, moved[vid[1]][0], unit.loc(n.get("loc")), moved[vid[1]][1], "a part is moved after the whole object was moved")
            consumes.append((vid, name, how, unit.loc(n.get("loc"))))
            return
        # x = ...  re-initialises x
        if n.get("opcall") == "=" and n.get("recv") is not None:
            r = T.unwrap(unit, n["recv"])
            if r is not None and r.get("k") == "ref":
                _reads(unit, n.get("args"), moved, report, fn, consumes)
                moved.pop(r["id"], None)
                for k2 in [x for x in moved if isinstance(x, tuple) and x[1] == r["id"]]:
                    moved.pop(k2, None)
                # a consume recorded for the same variable in this expression (x = f(std::move(x)))
                consumes[:] = [c for c in consumes if c[0] != r["id"] and not (isinstance(c[0], tuple) and c[0][1] == r["id"])]
                return
    if k == "assign":
        l = T.unwrap(unit, n.get("l"))
        if l is not None and l.get("k") == "ref":
            _reads(unit, n.get("r"), moved, report, fn, consumes)
            moved.pop(l["id"], None)
            for k2 in [x for x in moved if isinstance(x, tuple) and x[1] == l["id"]]:
                moved.pop(k2, None)
            consumes[:] = [c for c in consumes if c[0] != l["id"] and not (isinstance(c[0], tuple) and c[0][1] == l["id"])]
            return
    if k == "ref" and n.get("dk") in ("local", "param"):
        if n["id"] in moved:
            site, how, name = moved[n["id"]]
            report(name, site, unit.loc(n.get("loc")), how, "read after move")
        return
    if k == "lambda":
        # by-reference captures read the variable when the lambda runs; by-copy captures read now
        for c in n.get("captures", []):
            if c.get("id") in moved and c.get("by") == "copy" and c.get("init") is None:
                site, how, name = moved[c["id"]]
                report(name, site, unit.loc(n.get("loc")), how, "captured by copy after move")
            if c.get("init") is not None:
                _reads(unit, c["init"], moved, report, fn, consumes)
        for op in n.get("ops", []):
            inner = dict(moved)
            _stmt(unit, op.get("body"), inner, report, fn, set())
        return
    if k == "cond":
        # the condition is sequenced before the selected branch: its consumes are visible there
        c0 = []
        _reads(unit, n.get("c_"), moved, report, fn, c0)
        seen = dict(moved)
        for (vid, name, how, site) in c0:
            seen[vid] = (site, how, name)
        c1, c2 = [], []
        _reads(unit, n.get("then"), seen, report, fn, c1)
        _reads(unit, n.get("else"), seen, report, fn, c2)
        consumes.extend(c0)
        consumes.extend(c1)
        consumes.extend(c2)
        return
    if k == "binop" and n.get("op") in ("&&", "||", ","):
        c0 = []
        _reads(unit, n.get("l"), moved, report, fn, c0)
        seen = dict(moved)
        for (vid, name, how, site) in c0:
            seen[vid] = (site, how, name)
        c1 = []
        _reads(unit, n.get("r"), seen, report, fn, c1)
        consumes.extend(c0)
        consumes.extend(c1)
        return
    for c in F.children(n):
        _reads(unit, c, moved, report, fn, consumes)


# --------------------------------------------------------------------------------------------

def m2_function(unit, fn, report):
    """std::move applied to (a sub-object / element of) a forwarding-reference parameter"""
    fwd = {p["id"]: p["name"] for p in fn.get("params", []) if p.get("fwd")}
    if not fwd:
        return 0
    derived = dict(fwd)   # loop variables / iterators over the forwarded range
    n_sites = 0
    nodes = [fn.get("body")] + [i.get("init") for i in fn.get("inits", [])]
    for n in F.walk(nodes):
        if n.get("k") == "range_for" and n.get("var") is not None:
            r = G.root_of(unit, n.get("range")) if n.get("range") is not None else None
            if r in derived:
                derived[n["var"]["id"]] = "%s (element of %s)" % (n["var"].get("name"), derived[r])
    for n in F.walk(nodes):
        if n.get("k") != "call":
            continue
        d = T.callee_decl(unit, n)
        if d is None:
            continue
        qn = F.strip_targs(d["qn"])
        if qn in ("std::forward", "fcppt::move_if_rvalue", "fcppt::move_iterator_if_rvalue", "fcppt::move_if"):
            a = (n.get("args") or [None])[0]
            r = G.root_of(unit, a) if a is not None else None
            if r in derived:
                n_sites += 1
            continue
        if qn != "std::move" or not n.get("args") or len(n["args"]) != 1:
            continue
        r = G.root_of(unit, n["args"][0])
        if r in derived:
            n_sites += 1
            report(derived[r], unit.loc(n.get("loc")))
    return n_sites


# --------------------------------------------------------------------------------------------
MUTATING_ALGOS = {"std::reverse", "std::sort", "std::stable_sort", "std::rotate", "std::remove", "std::remove_if", "std::unique",
                  "std::iter_swap", "std::fill", "std::fill_n", "std::generate", "std::partition", "std::stable_partition",
                  "std::shuffle", "std::swap_ranges", "std::inplace_merge", "std::nth_element", "std::partial_sort",
                  "std::make_heap", "std::push_heap", "std::pop_heap", "std::sort_heap", "std::next_permutation", "std::prev_permutation"}
MUTATING_METHODS = {"push_back", "emplace_back", "push_front", "emplace_front", "pop_back", "pop_front", "erase", "clear", "insert",
                    "emplace", "resize", "assign", "swap", "sort", "reverse", "splice", "merge", "remove", "remove_if", "unique",
                    "operator=", "operator+=", "reset", "release", "extract"}


def strip_ref(t):
    t = (t or "").strip()
    while t.endswith("&"):
        t = t[:-1].strip()
    if t.startswith("const "):
        t = t[6:]
    return t.replace(" >", ">").strip()


def fwd_params_in_scope(fn):
    """forwarding-reference parameters visible in fn: its own and those of enclosing functions (captured)"""
    out = {}
    f = fn
    while f is not None:
        for p in f.get("params", []):
            if p.get("fwd"):
                out[p["id"]] = (p, f)
        f = f.get("_parent")
    return out


def proj_root(unit, n, fwd, depth=0):
    """root variable of n, also through free PROJECTIONS: a call returning a reference whose only argument rooted in
    a forwarding parameter is that parameter (fcppt::array::get<I>(_a), std::get<I>(_t), fcppt::record::get<L>(_r))"""
    r = G.root_of(unit, n)
    if r is not None or depth > 3:
        return r
    n = T.unwrap(unit, n)
    if n is None or n.get("k") != "call":
        return None
    d = T.callee_decl(unit, n)
    if d is None:
        return None
    rt = (unit.ty(d.get("ret")) or "").strip()
    if not rt.endswith("&"):
        return None
    roots = set()
    for a in ([n["recv"]] if n.get("recv") is not None else []) + list(n.get("args", [])):
        ra = proj_root(unit, a, fwd, depth + 1)
        if ra in fwd:
            roots.add(ra)
    return roots.pop() if len(roots) == 1 else None


def m5_function(unit, fn, report):
    """move_if_rvalue<X>(e) / std::forward<X>(e) / move_iterator_if_rvalue<X>(it): X must be the type of the
    forwarding parameter e is rooted in (same value category). Returns number of checked sites."""
    fwd = fwd_params_in_scope(fn)
    if not fwd:
        return 0
    n_sites = 0
    for n in F.walk(fn.get("body"), into_lambdas=False):
        if n.get("k") != "call":
            continue
        d = T.callee_decl(unit, n)
        if d is None:
            continue
        qn = F.strip_targs(d["qn"])
        if qn not in ("fcppt::move_if_rvalue", "std::forward") or not n.get("args"):
            continue
        r = proj_root(unit, n["args"][0], fwd)
        if r not in fwd:
            continue
        p, owner = fwd[r]
        if owner.get("lambda"):
            continue   # `auto &&element` of a callback: forwarded with the enclosing RANGE's category by design
        X = (d.get("targs") or [None])[0]
        if X is None:
            continue
        pt = unit.ty(p["t"]) or ""
        n_sites += 1
        x_l = (X.strip().endswith("&") and not X.strip().endswith("&&")) or \
            bool(re.search(r"\(\*[^()]*[^&]&\)\s*\(", X))       # reference to a pointer to function: `int (*const &)(int)`
        p_l = p["ref"] in ("lref", "clref")
        if strip_ref(X) != strip_ref(pt):
            # another template parameter of the same shape: only a defect if the category differs
            if x_l != p_l:
                report(p["name"], unit.loc(n.get("loc")), X, pt)
        elif x_l != p_l:
            report(p["name"], unit.loc(n.get("loc")), X, pt)
    return n_sites


def iter_root(unit, a):
    """root of an iterator/range argument: x, x.begin(), std::begin(x), fcppt::range::begin(x), ..."""
    r = G.root_of(unit, a)
    if r is not None:
        return r
    a = T.unwrap(unit, a)
    if a is not None and a.get("k") == "call":
        d = T.callee_decl(unit, a)
        short = F.strip_targs(d["qn"]).split("::")[-1] if d else None
        if short in ("begin", "end", "rbegin", "rend", "data"):
            src = a.get("recv") if a.get("recv") is not None else (a.get("args") or [None])[0]
            return G.root_of(unit, src) if src is not None else None
    return None


def m6_function(unit, fn, report):
    """a forwarding parameter instantiated as a NON-CONST LVALUE reference must not be modified"""
    fwd = {i: (p, o) for i, (p, o) in fwd_params_in_scope(fn).items() if p["ref"] == "lref"}
    if not fwd:
        return 0
    n = 0
    for node in F.walk(fn.get("body"), into_lambdas=False):
        if node.get("k") != "call":
            continue
        d = T.callee_decl(unit, node)
        if d is None:
            continue
        qn = F.strip_targs(d["qn"])
        short = qn.split("::")[-1]
        if qn in MUTATING_ALGOS:
            for a in node.get("args", []):
                r = iter_root(unit, a)
                if r in fwd:
                    n += 1
                    report(fwd[r][0]["name"], unit.loc(node.get("loc")), "%s over its elements" % qn)
                    break
        elif node.get("recv") is not None and short in MUTATING_METHODS and not d.get("const", True):
            rv = T.unwrap(unit, node["recv"])
            if rv is not None and rv.get("k") == "ref" and rv.get("id") in fwd:
                n += 1
                report(fwd[rv["id"]][0]["name"], unit.loc(node.get("loc")), "%s() on it" % short)
    return len(fwd)


# --------------------------------------------------------------------------------------------
MOVE_FNS = ("std::move", "std::forward", "fcppt::move_if_rvalue", "fcppt::move_if")


def generic_root(unit, n, depth=0):
    """root variable id of n through members, accessors and free projections returning references (any single argument)"""
    r = G.root_of(unit, n)
    if r is not None or depth > 4:
        return r
    n = T.unwrap(unit, n)
    if n is None or n.get("k") != "call":
        return None
    d = T.callee_decl(unit, n)
    if d is None or not (unit.ty(d.get("ret")) or "").strip().endswith("&"):
        return None
    roots = set()
    for a in ([n["recv"]] if n.get("recv") is not None else []) + list(n.get("args", [])):
        ra = generic_root(unit, a, depth + 1)
        if ra is not None:
            roots.add(ra)
    return roots.pop() if len(roots) == 1 else None


def moves_from_params(unit, fn):
    """{parameter index: site} -- parameters of fn (non-const lvalue references) from which the body moves (an xvalue-producing
    move / forward / move_if_rvalue / move_if applied to something rooted in the parameter). One-level summary for M7."""
    if "_mfp" in fn:
        return fn["_mfp"]
    out = {}
    params = fn.get("params", [])
    idx = {p["id"]: i for i, p in enumerate(params) if p.get("ref") == "lref" and not p.get("fwd")}
    if idx:
        for n in F.walk([fn.get("body")] + [i.get("init") for i in fn.get("inits", []) or []], into_lambdas=True):
            if n.get("k") != "call" or n.get("vc") != "x" or not n.get("args"):
                continue
            d = T.callee_decl(unit, n)
            if d is None or F.strip_targs(d["qn"]) not in MOVE_FNS:
                continue
            r = generic_root(unit, n["args"][0])
            if r in idx:
                out.setdefault(idx[r], unit.loc(n.get("loc")))
    fn["_mfp"] = out
    return out


def m7_function(db, unit, fn, report):
    """An lvalue argument must not be handed to a helper that moves from that parameter: at every call inside fn (a function
    with forwarding parameters, lambdas included) whose callee has a moves-from summary for parameter i, argument i must
    not be rooted in a forwarding parameter that is an lvalue reference in this instantiation. Returns #call sites checked."""
    fwd = fwd_params_in_scope(fn)
    if not fwd or F.strip_targs(F.top_function(fn).get("qn", "")) in MOVE_FNS + ("fcppt::detail::move_if::execute",):
        return 0   # the move primitives themselves
    n_sites = 0
    for n in F.walk(fn.get("body"), into_lambdas=False):
        if n.get("k") != "call" or not n.get("args"):
            continue
        callee = db.resolve(unit, n.get("callee")) if n.get("callee") is not None else None
        if callee is None or callee.get("body") is None:
            continue
        mf = moves_from_params(callee["_unit"], callee)
        if not mf:
            continue
        for i, site in mf.items():
            if i >= len(n["args"]):
                continue
            n_sites += 1
            r = generic_root(unit, n["args"][i])
            if r in fwd and fwd[r][0]["ref"] in ("lref", "clref") and not fwd[r][1].get("lambda"):
                report(fwd[r][0]["name"], unit.loc(n.get("loc")), F.strip_targs(callee["qn"]), site)
    return n_sites


def m5b_function(unit, fn, report):
    """In an instantiation whose forwarding parameters are ALL lvalue references, nothing that lives in caller storage may be
    moved: an xvalue-producing move_if_rvalue / std::forward / move_if whose operand is reached through a reference wrapper
    (fcppt::reference::get, std::reference_wrapper::get) or an iterator dereference. Returns #sites checked."""
    fwd = fwd_params_in_scope(fn)
    own = [p for (p, o) in fwd.values() if not o.get("lambda")]
    if not own or any(p["ref"] not in ("lref", "clref") for p in own):
        return 0
    n_sites = 0
    for n in F.walk(fn.get("body"), into_lambdas=False):
        if n.get("k") != "call" or not n.get("args"):
            continue
        d = T.callee_decl(unit, n)
        if d is None or F.strip_targs(d["qn"]) not in ("fcppt::move_if_rvalue", "std::forward", "fcppt::move_if"):
            continue
        a = n["args"][0]
        while a is not None and a.get("k") in ("icast", "cast"):
            a = a.get("e")
        through = None
        if a is not None and a.get("k") == "call":
            q = T.callee_qn(unit, a) or ""
            if q in ("fcppt::reference::get", "std::reference_wrapper::get"):
                through = "a reference wrapper"
            elif a.get("opcall") in ("*", "->"):
                through = "an iterator"
        elif a is not None and a.get("k") == "unop" and a.get("op") == "*":
            through = "a pointer / iterator"
        if through is None:
            continue
        # lambda-owned `auto &&` forwarding (std::forward<decltype(x)>(x)) never reaches here: its operand is a plain reference
        n_sites += 1
        if n.get("vc") == "x":
            X = (d.get("targs") or ["?"])[0]
            report(unit.loc(n.get("loc")), X, through)
    return n_sites
