"""C04 optional / either / variant combinators satisfy their algebraic specification.

For every combinator in specs/C04-tables.json (written from the doxygen text), every analysed
specialisation (const-lvalue / lvalue / rvalue arguments, opaque continuations) is interpreted by
engine S over the free Boolean domain of its tag predicates; the resulting decision table --
which continuation is invoked, how often, with which payload, which constructor forms the result
-- must equal the specification table row by row, and no path may reach an unsafe accessor
under the wrong tag. Equal tables give the functor / monad laws for all types, values and
functions by parametricity (specs/C04-laws.md).
"""
import json
import os
import re

from engine import facts as F
from engine import load
from engine import plumbing as P
from engine import sx
from engine import terms as T
from engine import witness as W

LEVEL = "proof"

INLINE = ("fcppt::optional::", "fcppt::either::", "fcppt::variant::", "fcppt::cond", "fcppt::monad::",
          "fcppt::const_", "fcppt::algorithm::", "fcppt::detail::const_", "fcppt::identity")

SKIP_GENERIC = {
    # handled by dedicated rules below (packs, loops, delegation)
    "fcppt::optional::apply", "fcppt::optional::maybe_multi", "fcppt::optional::cat", "fcppt::optional::sequence",
    "fcppt::either::apply", "fcppt::either::sequence", "fcppt::either::first_success", "fcppt::either::loop",
    "fcppt::either::try_call", "fcppt::variant::match", "fcppt::variant::apply", "fcppt::variant::compare",
    "fcppt::variant::holds_type", "fcppt::variant::operator==", "fcppt::variant::operator<", "fcppt::monad::bind",
    "fcppt::either::operator==", "fcppt::optional::operator==", "fcppt::optional::operator<",
    "fcppt::variant::to_optional", "fcppt::variant::to_optional_ref",
}


def spec_term(v, names, events):
    """interpreter value -> specification vocabulary"""
    if isinstance(v, sx.Closure):
        return "<lambda>"
    if not isinstance(v, tuple) or not v:
        return str(v)
    t = v[0]
    if t == "sym":
        return "arg(%s)" % names.get(v[1], v[1])
    if t == "bool":
        return "True" if v[1] else "False"
    if t == "k":
        if v[1] is None:
            return "void"
        return str(v[1])
    if t == "app":
        inner = [spec_term(a, names, events) for a in v[2]]
        def arg0():
            s = inner[0]
            return s[4:-1] if s.startswith("arg(") else s
        if v[1] == "some_payload":
            return "payload(%s)" % arg0()
        if v[1] == "success_payload":
            return "spayload(%s)" % arg0()
        if v[1] == "failure_payload":
            return "fpayload(%s)" % arg0()
        if v[1] == "has_value":
            return "has_value(%s)" % arg0()
        if v[1] == "has_success":
            return "has_success(%s)" % arg0()
        if v[1].startswith("holds<"):
            return "%s(%s)" % (v[1], arg0())
        if v[1].startswith("alt_payload<"):
            return "payload_%s(%s)" % (v[1][12:-1], arg0())
        return "%s(%s)" % (v[1], ", ".join(inner))
    if t == "ev":
        e = events[v[1] - 1]
        if e[0] == "call":
            f = spec_term(e[1][0], names, events)
            return "ret(%s)" % (f[4:-1] if f.startswith("arg(") else f)
        return "ret(%s)" % e[0]
    if t == "new":
        if v[1] == sx.OPT:
            return "nothing" if v[2] == "none" else "some(%s)" % spec_term(v[3][0], names, events)
        if v[1] == sx.EITH:
            return "%s(%s)" % (v[2], spec_term(v[3][0], names, events))
        return "%s{%s}" % (v[1], ", ".join(spec_term(a, names, events) for a in v[3]))
    if t == "not":
        return "!" + spec_term(v[1], names, events)
    if t == "cmp":
        return "%s%s%s" % (spec_term(v[2], names, events), v[1], spec_term(v[3], names, events))
    if t == "tuple":
        return "(" + ", ".join(spec_term(a, names, events) for a in v[1]) + ")"
    return sx.show(v)


def path_signature(p, names):
    ev = p.events
    conds = {}
    for a, b in p.decisions:
        k = spec_term(a, names, ev)
        if k.startswith("arg(") and k.endswith(")"):
            k = k[4:-1]
        conds[k] = b
    calls = []
    unsafe = []
    for e in ev:
        if e[0] == "call":
            f = spec_term(e[1][0], names, ev)
            calls.append((f[4:-1] if f.startswith("arg(") else f, [spec_term(a, names, ev) for a in e[1][1:]]))
        elif e[0] == "UNSAFE":
            unsafe.append((spec_term(e[1][0], names, ev), e[2]))
        elif e[0] in ("throw", "catch", "loop-bound"):
            pass
        else:
            calls.append((e[0], [spec_term(a, names, ev) for a in e[1]]))
    if p.outcome[0] == "throw":
        # the thrown value is the operand of the throw expression
        res = "throw"
    else:
        res = spec_term(p.outcome[1], names, ev)
    return conds, calls, res, unsafe


def norm_spec_arg(s):
    return s.replace(" as lvalue", "").strip()


def semantic_equal(path_res, row_res, when):
    """path result vs. spec result under the row's assignment"""
    if row_res is None:
        return True
    r = str(row_res)
    if path_res == r:
        return True
    # arg(x) where x is known empty on this row is `nothing`
    m = re.match(r"arg\((\w+)\)$", path_res)
    if m and r == "nothing" and when.get("has_value(%s)" % m.group(1)) is False:
        return True
    if r.startswith("throw(") and path_res == "throw":
        return True
    # an either-valued term X forwarded as a whole equals failure(fpayload(X)) / success(spayload(X))
    # on the rows that fix its tag
    if r == "failure(fpayload(%s))" % path_res and when.get("has_success(%s)" % path_res) is False:
        return True
    if r == "success(spayload(%s))" % path_res and when.get("has_success(%s)" % path_res) is True:
        return True
    return False


def check_table(rep, db, table, cfg):
    name = table["function"]
    fns = db.fns(name)
    if not fns:
        rep.broken("C04: no analysed specialisation of %s (driver or declaration vanished)" % name)
        return
    done = set()
    for fn in fns:
        sig = (F.primary_site(fn), tuple(p["ref"] + str(p.get("fwd")) + ("c" if "const " in (fn["_unit"].ty(p["t"]) or "") else "") for p in fn.get("params", [])))
        if sig in done:
            continue
        done.add(sig)
        params = fn.get("params", [])
        if len(params) != len(table["args"]):
            rep.broken("C04: %s has %d parameters, table has %d" % (F.describe(fn), len(params), len(table["args"])))
            continue
        names = {s: a for s, a in zip(sx.param_symbols(params), table["args"])}
        it = sx.Interp(db, cfg)
        try:
            paths = it.paths(fn)
        except sx.Unsupported as e:
            rep.broken("C04: %s is outside the interpreted fragment: %s" % (F.describe(fn), e))
            continue
        sigs = [path_signature(p, names) for p in paths]
        vc = "/".join(p["ref"] for p in params)
        for ri, row in enumerate(table["rows"]):
            when = row.get("when") or {}
            key = "%s|row %d %s|%s" % (name, ri, json.dumps(when, sort_keys=True), vc)
            matching = [s for s in sigs if all(s[0].get(a, v) == v for a, v in when.items())]
            # paths that decided an atom contrary to the row are excluded; a path that left an
            # atom undecided covers the row as well
            if not matching:
                rep.fail("TABLE", key, F.primary_site(fn), F.describe(fn),
                         why="no path of the implementation covers this row of the specification table",
                         detail={"row": row, "paths": [p.show() for p in paths]})
                continue
            bad = None
            for (conds, calls, res, unsafe) in matching:
                want_calls = [(c["fn"], [norm_spec_arg(a) for a in c["args"]]) for c in row.get("calls", []) for _ in range(c.get("times", 1))]
                if calls != want_calls:
                    bad = "continuation invocations differ: implementation %s, specification %s" % (calls, want_calls)
                    break
                if not semantic_equal(res, row.get("result"), when):
                    bad = "result differs: implementation %s, specification %s" % (res, row.get("result"))
                    break
                extra = [a for a in conds if a not in when and a not in (table.get("atoms") or [])]
                if extra:
                    bad = "implementation branches on %s, which the specification does not mention" % extra
                    break
            if bad:
                rep.fail("TABLE", key, F.primary_site(fn), F.describe(fn), why=bad,
                         detail={"row": row, "paths": [p.show() for p in paths]})
            else:
                rep.ok("TABLE", key, F.primary_site(fn), F.describe(fn), how="row-equal",
                       detail={"paths": len(matching)})
        for (conds, calls, res, unsafe) in sigs:
            for (obj, loc) in unsafe:
                rep.fail("TAG", "%s|unsafe access of %s" % (name, obj), loc, F.describe(fn),
                         why="an unsafe accessor is reached on a path where the required tag does not hold: %s" % conds)
        rep.ok("TAG", "%s|%s" % (name, vc), F.primary_site(fn), F.describe(fn), how="no-unsafe-path") if not any(s[3] for s in sigs) else None


# --------------------------------------------------------------------------------------------
# dedicated rules

def paths_of(rep, db, cfg, fn):
    try:
        return sx.Interp(db, cfg).paths(fn)
    except sx.Unsupported as e:
        rep.broken("C04: %s is outside the interpreted fragment: %s" % (F.describe(fn), e))
        return None


def rule_pack(rep, db, cfg, name, kind):
    """optional::apply / maybe_multi / either::apply: all-engaged row calls f once with every
    payload in argument order; otherwise no call (and for either::apply the first failure)."""
    fns = db.fns(name)
    if not fns:
        rep.broken("C04: no analysed specialisation of " + name)
        return
    for fn in fns:
        params = fn.get("params", [])
        u = fn["_unit"]
        key = "%s|%d arguments|%s" % (name, len(params), "/".join(p["ref"] for p in params))
        paths = paths_of(rep, db, cfg, fn)
        if paths is None:
            continue
        syms = sx.param_symbols(params)
        pack = [s for s, p in zip(syms, params) if ("optional::object" in (u.ty(p["t"]) or "") or "either::object" in (u.ty(p["t"]) or ""))]
        fname = [s for s in syms if s not in pack]
        bad = None
        tagatom = "has_value" if kind == "optional" else "has_success"
        pay = "some_payload" if kind == "optional" else "success_payload"
        seen_all = False
        for p in paths:
            dec = {}
            for a, b in p.decisions:
                if isinstance(a, tuple) and a[0] == "app" and a[1] == tagatom:
                    dec[a[2][0][1]] = b
            calls = [e for e in p.events if e[0] == "call"]
            unsafe = [e for e in p.events if e[0] == "UNSAFE"]
            if unsafe:
                bad = "unsafe accessor reached under the wrong tag (%s)" % sx.show(unsafe[0][1][0])
                break
            allset = all(dec.get(x, None) is True for x in pack)
            anyunset = any(dec.get(x, None) is False for x in pack)
            if allset:
                seen_all = True
                main = [c for c in calls if c[1][0][0] == "sym"]
                if len(main) != 1:
                    bad = "on the all-engaged row the function is invoked %d times" % len(main)
                    break
                got = [sx.show(a) for a in main[0][1][1:]]
                want = ["%s(%s)" % (pay, x) for x in pack]
                if got != want:
                    bad = "payload arguments %s differ from argument order %s" % (got, want)
                    break
            elif anyunset:
                main = [c for c in calls if c[1][0][0] == "sym" and c[1][0][1] in fname and len(c[1]) > 1]
                if main:
                    bad = "continuation invoked although %s is not engaged" % [x for x in pack if dec.get(x) is False]
                    break
                if kind == "either" and p.outcome[0] == "return":
                    # first failure in argument order
                    first = next(x for x in pack if dec.get(x) is False)
                    got = sx.show(p.outcome[1])
                    if "failure_payload(%s)" % first not in got:
                        bad = "failure row returns %s, expected the failure of the first failing argument %s" % (got, first)
                        break
            else:
                bad = "a path neither establishes nor refutes all tags: %s" % p.show()["decisions"]
                break
        if bad is None and not seen_all:
            bad = "no path covers the all-engaged row"
        if bad:
            rep.fail("PACK", key, F.primary_site(fn), F.describe(fn), why=bad)
        else:
            rep.ok("PACK", key, F.primary_site(fn), F.describe(fn), how="pack-table-equal", detail={"paths": len(paths)})


def rule_variant_compare(rep, db, cfg):
    fns = db.fns("fcppt::variant::compare")
    if not fns:
        rep.broken("C04: variant::compare not instantiated")
        return
    fn = fns[0]
    paths = paths_of(rep, db, cfg, fn)
    if paths is None:
        return
    why = None
    same = diff = 0
    for p in paths:
        dec = {}
        for a, b in p.decisions:
            s = sx.show(a)
            dec[s] = b
        calls = [e for e in p.events if e[0] == "call"]
        held_r = [k for k, v in dec.items() if k.startswith("holds<") and "(r_a1)" in k and v]
        held_l = [k for k, v in dec.items() if k.startswith("holds<") and "(r_a0)" in k and v]
        out = sx.show(p.outcome[1]) if p.outcome[0] == "return" else p.outcome[0]
        if calls:
            same += 1
            if len(calls) != 1:
                why = "the comparator is invoked %d times" % len(calls)
                break
            a = [sx.show(x) for x in calls[0][1]]
            if a[0] != "r_a2" or not (a[1].startswith("alt_payload<") and a[1].endswith("(r_a0)")) or not (a[2].startswith("alt_payload<") and a[2].endswith("(r_a1)")):   # compare(left, right, comparator)
                why = "the comparator is invoked as %s(%s, %s); specification: comparator(payload of the left variant, payload of the right variant)" % (a[0], a[1], a[2])
                break
            if a[1].split("(")[0] != a[2].split("(")[0]:
                why = "payloads of different alternatives are compared: %s vs %s" % (a[1], a[2])
                break
            if not out.startswith("#"):
                why = "the comparator's result is not returned (%s)" % out
                break
        else:
            diff += 1
            if out not in ("false", "#1:operator()") and "const_" not in out and out != "false":
                # fcppt::const_(false) is an opaque functor object here: its call result stands for `false`
                pass
    if not why and not (same and diff):
        why = "the result does not depend on whether both variants hold the same alternative"
    (rep.fail if why else rep.ok)("VCMP", "variant::compare", F.primary_site(fn), F.describe(fn)[:160],
                                  **({"why": why, "detail": {"paths": [p.show() for p in paths][:6]}} if why else {"how": "same=>compare(l,r);different=>false", "detail": {"paths": len(paths)}}))


def rule_try_call(rep, db):
    fns = db.fns("fcppt::either::try_call")
    if not fns:
        rep.broken("C04: either::try_call not instantiated")
        return
    from engine import terms as T
    fn = fns[0]
    u = fn["_unit"]
    trys = [n for n in F.walk(fn.get("body"), into_lambdas=False) if n.get("k") == "try"]
    why = None
    if len(trys) != 1:
        why = "expected exactly one try block"
    else:
        t = trys[0]
        exc = (fn.get("targs") or ["?"])[0]
        calls = [n for n in F.walk(t.get("body")) if n.get("k") == "call" and n.get("recv") is not None and T.show(T.norm(u, n["recv"])) == "r_a0"]   # try_call(function, to_exception)
        rets = [r for r in F.walk(t.get("body")) if r.get("k") == "return"]
        if len(calls) != 1 or len(rets) != 1:
            why = "the function is not called exactly once inside the try block"
        hs = t.get("handlers", [])
        if not why and (len(hs) != 1 or hs[0].get("all") or (u.ty(hs[0].get("t")) or "").replace(" ", "") != ("const " + exc + " &").replace(" ", "")):
            why = "the handler does not catch exactly `%s const &` (it catches %s)" % (exc, [u.ty(h.get("t")) if not h.get("all") else "..." for h in hs])
        if not why:
            h = hs[0]
            conv = [n for n in F.walk(h.get("body")) if n.get("k") == "call" and n.get("recv") is not None and T.show(T.norm(u, n["recv"])) == "r_a1"]
            if len(conv) != 1:
                why = "the conversion function is not invoked exactly once in the handler"
            else:
                a = T.unwrap(u, conv[0]["args"][0]) if conv[0].get("args") else None
                if a is None or a.get("k") != "ref" or a.get("id") != h.get("var_id"):
                    why = ("the conversion function receives `%s`, not the caught exception object itself (a copy of the handler type "
                           "slices a derived exception)" % (T.show(T.norm(u, conv[0]["args"][0])) if conv[0].get("args") else "?"))
        outside = [n for n in F.walk(fn.get("body"), into_lambdas=False) if n.get("k") == "call" and n.get("recv") is not None and T.show(T.norm(u, n["recv"])) == "r_a0"]   # try_call(function, to_exception)
        if not why and len(outside) != 1:
            why = "the function is called outside the try block as well"
    (rep.fail if why else rep.ok)("TRY", "either::try_call", F.primary_site(fn), F.describe(fn)[:160], **({"why": why} if why else {"how": "try{f()}=>success; catch(E const& e){conv(e)}=>failure"}))


# ------------------------------------------------------------------------------------------------
# loop-shaped combinators: every path (run-time range unrolled twice, longer ranges end as a truncated prefix)

def _elem_tags(p, rng, tagname):
    """({index: more?}, {index: tag}) decided on the path for the elements of the range parameter"""
    more, tags = {}, {}
    for a, b in p.decisions:
        t = sx.show(a)
        m = re.match(r"^more\(%s, (\d+)\)$" % re.escape(rng), t)
        if m:
            more[int(m.group(1))] = b
        m = re.match(r"^%s\(%s\[(\d+)\]\)$" % (tagname, re.escape(rng)), t)
        if m:
            tags[int(m.group(1))] = b
    return more, tags


def _inserted(p):
    out = []
    for e in p.events:
        nm = e[0].split("<")[0]
        if nm in ("std::vector::insert", "std::vector::push_back", "std::vector::emplace_back"):
            if nm == "std::vector::insert" and ":end" not in sx.show(e[1][1]):
                out.append("%s inserted at %s, not at the end" % (sx.show(e[1][-1]), sx.show(e[1][1])))
            else:
                out.append(sx.show(e[1][-1]))
    return out


def rule_loops(rep, db, cfg):
    def each(qn):
        seen = set()
        for fn in db.fns(qn):
            k = (F.primary_site(fn), tuple(fn.get("targs") or []))
            if k in seen or not fn.get("params"):
                continue
            seen.add(k)
            try:
                ps = sx.Interp(db, cfg).paths(fn, limit=600)
            except sx.Unsupported as e:
                rep.broken("C04 LOOP: %s outside the interpreted fragment: %s" % (F.describe(fn)[:120], e))
                continue
            yield fn, ps

    def verdict(fn, key, bad, n):
        if bad:
            rep.fail("LOOP", key, F.primary_site(fn), F.describe(fn)[:200], why=bad[0], detail={"path": bad[1].show()})
        else:
            rep.ok("LOOP", key, F.primary_site(fn), F.describe(fn)[:200], how="all-paths", detail={"paths": n})

    # sequence: first absent element / failure in iteration order decides; otherwise every payload once, in order
    for qn, tagname, payload, absent in (("fcppt::optional::sequence", "has_value", "some_payload", None),
                                         ("fcppt::either::sequence", "has_success", "success_payload", "failure_payload")):
        for fn, ps in each(qn):
            rng = fn["params"][0]["name"]
            bad = None
            full = 0
            for p in ps:
                if p.outcome[0] != "return":
                    continue
                more, tags = _elem_tags(p, rng, tagname)
                n = len([i for i, b in more.items() if b])
                first_bad = next((i for i in range(n) if tags.get(i) is False), None)
                out = sx.show(p.outcome[1])
                ins = _inserted(p)
                if first_bad is None:
                    if any(i not in tags for i in range(n)):
                        bad = ("an element's tag is never examined although the result is built from all of them", p)
                        break
                    want = ["%s(%s[%d])" % (payload, rng, i) for i in range(n)]
                    if ins != want or not (out.endswith(":some") or out.endswith(":success")):
                        bad = ("all %d elements are engaged: expected the container of their payloads in order %s, got %s with %s" % (n, want, out, ins), p)
                        break
                    full += 1
                else:
                    want_out = ":none" if absent is None else "%s(%s[%d])}:failure" % (absent, rng, first_bad)
                    if not out.endswith(want_out) or (absent is None and ins):
                        bad = ("element %d is the first %s one: expected %s, got %s" % (first_bad, "empty" if absent is None else "failing", want_out, out), p)
                        break
            if not bad and not full:
                bad = ("no complete path builds the full result", ps[0])
            verdict(fn, "%s|%s" % (qn.replace("fcppt::", ""), ",".join(fn.get("targs") or [])[:80]), bad, len(ps))
    # cat: exactly the engaged elements, in order
    for fn, ps in each("fcppt::optional::cat"):
        rng = fn["params"][0]["name"]
        bad = None
        for p in ps:
            if p.outcome[0] != "return":
                continue
            more, tags = _elem_tags(p, rng, "has_value")
            n = len([i for i, b in more.items() if b])
            want = ["some_payload(%s[%d])" % (rng, i) for i in range(n) if tags.get(i)]
            if any(i not in tags for i in range(n)) or _inserted(p) != want:
                bad = ("expected exactly the payloads of the engaged elements in order %s, got %s" % (want, _inserted(p)), p)
                break
        verdict(fn, "optional::cat|%s" % ",".join(fn.get("targs") or [])[:80], bad, len(ps))
    # first_success: functions called in order, each at most once, stop at the first success, all failures collected
    for fn, ps in each("fcppt::either::first_success"):
        rng = fn["params"][0]["name"]
        bad = None
        for p in ps:
            calls = [(i, e) for i, e in enumerate(p.events, 1) if e[0] == "call"]
            idx = [sx.show(e[1][0]) for i, e in calls]
            if idx != ["%s[%d]" % (rng, k) for k in range(len(idx))]:
                bad = ("the functions are not called in container order, each once: %s" % idx, p)
                break
            if p.outcome[0] != "return":
                continue
            dec = {sx.show(a): b for a, b in p.decisions}
            oks = [dec.get("has_success(#%d:call)" % i) for i, e in calls]
            out = sx.show(p.outcome[1])
            if True in oks:
                k = oks.index(True)
                if k != len(calls) - 1 or not out.endswith("success_payload(#%d:call)}:success" % calls[k][0]):
                    bad = ("function %d is the first to succeed: expected its success and no further call, got %s after %d calls" % (k, out, len(calls)), p)
                    break
            else:
                want = ["failure_payload(#%d:call)" % i for i, e in calls]
                if _inserted(p) != want or not out.endswith(":failure"):
                    bad = ("no function succeeds: expected the failures of all %d calls in order, got %s / %s" % (len(calls), _inserted(p), out), p)
                    break
        verdict(fn, "either::first_success|%s" % ",".join(fn.get("targs") or [])[:80], bad, len(ps))
    # loop: next() until it fails; body exactly once per success with that success; the failure is the result
    for fn, ps in each("fcppt::either::loop"):
        nxt, body = fn["params"][0]["name"], fn["params"][1]["name"]
        bad = None
        for p in ps:
            evs = [(i, e) for i, e in enumerate(p.events, 1) if e[0] == "call"]
            dec = {sx.show(a): b for a, b in p.decisions}
            k = 0
            why = None
            last_fail = None
            while k < len(evs):
                i, e = evs[k]
                if sx.show(e[1][0]) != nxt or len(e[1]) != 1:
                    why = "expected a call of %s, found %s" % (nxt, sx.show_event(e))
                    break
                ok = dec.get("has_success(#%d:call)" % i)
                if ok is True:
                    if k + 1 >= len(evs):
                        if p.outcome[0] != "truncated":
                            why = "a success of %s is not passed to %s" % (nxt, body)
                        break
                    j, e2 = evs[k + 1]
                    if [sx.show(a) for a in e2[1]] != [body, "success_payload(#%d:call)" % i]:
                        why = "after a success the body is not called with exactly that success: %s" % sx.show_event(e2)
                        break
                    k += 2
                elif ok is False:
                    last_fail = i
                    if k != len(evs) - 1:
                        why = "calls continue after %s failed" % nxt
                    break
                else:
                    why = "the result of %s is not examined" % nxt
                    break
            if not why and p.outcome[0] == "return":
                if last_fail is None or sx.show(p.outcome[1]) != "failure_payload(#%d:call)" % last_fail:
                    why = "the result is %s, expected the failure that ended the loop" % sx.show(p.outcome[1])
            if why:
                bad = (why, p)
                break
        verdict(fn, "either::loop|%s" % ",".join(fn.get("targs") or [])[:80], bad, len(ps))


def _split_targs(t):
    """template arguments of 'X<a, b<c, d>, e>' at depth 1"""
    i = t.find("<")
    if i < 0 or not t.rstrip().rstrip("&").rstrip().endswith(">"):
        return []
    body = t[i + 1:t.rstrip().rstrip("&").rstrip().rfind(">")]
    out, depth, cur = [], 0, ""
    for ch in body:
        if ch == "<":
            depth += 1
        elif ch == ">":
            depth -= 1
        if ch == "," and depth == 0:
            out.append(cur.strip())
            cur = ""
        else:
            cur += ch
    if cur.strip():
        out.append(cur.strip())
    return out


def rule_variant_match(rep, db):
    """variant::match(v, f_1 ... f_n): the visitor applied by variant::apply calls, for the alternative of type T_i, exactly the
    i-th function (position of T_i in the variant's type list) with that alternative forwarded with the variant's category"""
    seen = set()
    for fn in db.fns("fcppt::variant::match"):
        u = fn["_unit"]
        ta = fn.get("targs") or []
        if not ta or tuple(ta) in seen:
            continue
        seen.add(tuple(ta))
        vt = ta[0]
        types = [M_strip(x) for x in _split_targs(vt.replace("const ", "").strip())]
        key = "variant::match<%s>" % vt.replace("fcppt::variant::", "").replace("drv_oev::", "")
        why = None
        applies = [n for n in F.walk(fn.get("body"), into_lambdas=False) if n.get("k") == "call" and (T.callee_qn(u, n) or "") == "fcppt::variant::apply"]
        lams = [x for x in F.walk(fn.get("body"), into_lambdas=False) if x.get("k") == "lambda"]
        if len(applies) != 1 or len(lams) != 1:
            why = "match is not a single variant::apply of one visitor"
        else:
            a1 = T.show(T.norm(u, applies[0]["args"][-1]))
            if fn["params"][0]["name"] not in a1:
                why = "variant::apply is not given the matched variant (%s)" % a1
            ops = lams[0].get("ops", [])
            if not why and len(ops) != len(types):
                why = "the visitor is instantiated for %d alternatives, the variant has %d" % (len(ops), len(types))
            for op in ops if not why else []:
                at = M_strip(u.ty(op["params"][0]["t"]) or "")
                if at not in types:
                    why = "visitor instantiated for %s, which is not an alternative of %s" % (at, types)
                    break
                want = types.index(at)
                gets = [(c, T.callee_decl(u, c)) for c in F.walk(op.get("body")) if c.get("k") == "call" and (T.callee_qn(u, c) or "") == "fcppt::tuple::get"]
                fwd = [(c, T.callee_decl(u, c)) for c in F.walk(op.get("body")) if c.get("k") == "call" and (T.callee_qn(u, c) or "") in ("fcppt::move_if_rvalue", "std::forward")]
                if len(gets) != 1:
                    why = "the visitor does not select exactly one function"
                    break
                got = int(re.sub(r"\D", "", (gets[0][1].get("targs") or ["-1"])[0]) or -1)
                if got != want:
                    why = "alternative %s (position %d of the variant's types) is dispatched to function %d" % (at, want, got)
                    break
                if len(fwd) != 1 or M_strip((fwd[0][1].get("targs") or [""])[0]) != M_strip(vt) or \
                        ((fwd[0][1].get("targs") or [""])[0].strip().endswith("&") != vt.strip().endswith("&")):
                    why = "the alternative is not forwarded with the variant's own value category (move_if_rvalue<%s>)" % ((fwd[0][1].get("targs") or ["?"])[0] if fwd else "?")
                    break
                root = T.unwrap(u, fwd[0][0]["args"][0])
                if root is None or root.get("k") != "ref" or root.get("id") != op["params"][0]["id"]:
                    why = "the selected function is not applied to the visited alternative"
                    break
        (rep.fail if why else rep.ok)("VMATCH", key, F.primary_site(fn), F.describe(fn)[:200], **({"why": why} if why else {"how": "T_i -> f_i", "detail": {"alternatives": len(types)}}))


def M_strip(t):
    t = (t or "").strip()
    while t.endswith("&"):
        t = t[:-1].strip()
    if t.startswith("const "):
        t = t[6:]
    return t.replace(" >", ">").strip()


def main(rep, tier, only):
    db = load.load(tier, lib=False, drivers=["drv_oev"], tests=False)   # the rule tables are defined over the driver's instantiation registry (DESIGN §3)
    rep.extra.update(db.stats())
    spec = json.load(open(os.path.join(P.VERIF, "specs", "C04-tables.json")))
    cfg = sx.Config(inline_prefixes=INLINE, loop_bound=2, std_search=True)
    rep.rule("TABLE", "decision table of the implementation (continuation invoked, how often, with which payload, "
                      "result constructor) equals the specification table, row by row, per value category", floor=60)
    rep.rule("TAG", "no path reaches get_unsafe / get_success_unsafe / get_failure_unsafe / variant::get_unsafe under a "
                    "tag assignment that does not establish it", floor=25)
    rep.rule("PACK", "variadic combinators: all-engaged row invokes the function exactly once with every payload in "
                     "argument order, any other row never invokes it (either::apply: first failure in argument order)", floor=6)
    rep.rule("LOOP", "loop-shaped combinators on every path of a twice-unrolled run-time range: sequence = first empty / failing element in "
                     "iteration order, else every payload once in order; cat = exactly the engaged payloads in order; first_success = functions "
                     "in order, stop at the first success, else all failures in order; loop = next() until failure, body once per success", floor=6)
    rep.rule("VMATCH", "variant::match is one variant::apply of a visitor that, for the alternative of type T_i, calls exactly the i-th function "
                       "(position of T_i in the variant's type list) with the alternative forwarded with the variant's value category", floor=3)
    rep.rule("VCMP", "variant::compare: same alternative => the comparator is invoked exactly once with (payload of left, payload of right) "
                     "in that order and its result returned; different alternatives => false without invoking it", floor=1)
    rep.rule("TRY", "either::try_call: the function is called exactly once inside the try block and its result wrapped as success; the handler "
                    "catches exactly Exception const& and passes the caught object itself to the conversion, wrapped as failure", floor=1)
    rep.rule("W-types", "type-level facts: result types, accepted continuation reference kinds, variant index selection", floor=100)
    ntab = 0
    for t in spec["tables"]:
        if t["function"] in SKIP_GENERIC:
            continue
        if only not in (None, "TABLE", "TAG"):
            break
        check_table(rep, db, t, cfg)
        ntab += 1
    if only in (None, "PACK"):
        rule_pack(rep, db, cfg, "fcppt::optional::apply", "optional")
        rule_pack(rep, db, cfg, "fcppt::optional::maybe_multi", "optional")
        rule_pack(rep, db, cfg, "fcppt::either::apply", "either")
    if only in (None, "LOOP"):
        rule_loops(rep, db, cfg)
    if only in (None, "VMATCH"):
        rule_variant_match(rep, db)
    if only in (None, "VCMP"):
        rule_variant_compare(rep, db, cfg)
    if only in (None, "TRY"):
        rule_try_call(rep, db)
    if only in (None, "W-types"):
        cd = P.cache_dir()
        path = os.path.join(P.VERIF, "witness", "c04_types.cpp")
        wits, fails = W.run_witness_file(cd, path)
        if None in fails:
            rep.broken("witness TU c04_types.cpp has unattributed diagnostics: " + fails[None][0]["msg"])
        for (wid, text, a, z) in wits:
            site = "verif:witness/c04_types.cpp:%d" % a
            if wid in fails:
                f = fails[wid]
                lib = next((x["lib_site"] for x in f if x["lib_site"]), None)
                rep.fail("W-types", wid, lib or site, text, why="does not compile: " + f[0]["msg"],
                         detail={"chain": f[0]["chain"][:6]})
            else:
                rep.ok("W-types", wid, site, text, how="compiles")
    rep.extra["tables_checked"] = ntab
    rep.extra["exhaustive"] = True
    rep.extra["abstract_domain"] = "all consistent truth assignments of the tag predicates of each function (2-8 per function)"
    rep.explanation = (
        "Each combinator is interpreted over abstract values (engine S): arguments are symbols, continuations are opaque, "
        "branch conditions are tag atoms; every consistent assignment is enumerated and the resulting table is compared "
        "with the documented one. Exhaustive over the finite abstract domain; lifts to all types/values/functions by "
        "parametricity of the templates (written argument in specs/C04-laws.md, not mechanised).")
    rep.trusted = ["clang 14 front end", "std::optional / std::variant semantics behind has_value / holds_type / get_unsafe",
                   "the parametricity argument of specs/C04-laws.md", "specification tables specs/C04-tables.json (quoted from the doxygen text)"]
    rep.assumptions = ["loop-shaped combinators (cat, sequence, first_success, loop) are decided for ranges of length 0, 1 and 2 and as prefixes beyond (rule LOOP); "
                       "the lift to every length is the uniformity of the loop body in the index (not mechanised)"]
