#include <fcppt/container/grid/interpolate.hpp>
#include <fcppt/container/grid/object.hpp>
#include <fcppt/math/interpolation/linear.hpp>
#include <fcppt/math/vector/static.hpp>
#include <iostream>
int main()
{
  using grid = fcppt::container::grid::object<float, 2>;
  grid const g{grid::dim{2U, 2U}, [](grid::pos const &) { return 1.0F; }};
  // a position inside the grid's extent [0,2) x [0,2), but in the last cell
  fcppt::math::vector::static_<float, 2> const p{1.5F, 0.5F};
  float const r{fcppt::container::grid::interpolate(g, p, [](float const _f, float const _v1, float const _v2) { return fcppt::math::interpolation::linear(_f, _v1, _v2); })};
  std::cout << r << "\n";
}
