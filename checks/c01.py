"""C01 Safe API is total (DESIGN.md §6 C01).

Decides, from the type-resolved AST of every analysed instantiation:
 G    every partial operation (unsafe accessors of optional/either/variant, iterator
      dereference, front/back/pop of std containers, operator[], integer / and %, shifts) in a
      function that is not itself partial by contract is dominated by the fact it requires
 EXC  exception effects: every `throw` is in a function whose documentation or role declares it;
      throwing std entry points (std::filesystem overloads without error_code, .at(), stoi...)
      are not called from library code
 LOOP every non-range loop makes progress on a variable of its condition on every path back to
      the head (necessary condition of termination)
Declines: signed overflow, lifetime/aliasing UB, termination of floating-point convergence loops.
"""
import collections

from engine import facts as F
from engine import guards as G
from engine import load
from engine import terms as T

LEVEL = "other"

ANCHORS = [
    "libs/core/include/fcppt/math/log2.hpp", "libs/core/include/fcppt/math/next_power_of_2.hpp",
    "libs/core/include/fcppt/math/ceil_div.hpp", "libs/core/include/fcppt/math/ceil_div_signed.hpp",
    "libs/core/include/fcppt/math/div.hpp", "libs/core/include/fcppt/math/mod.hpp",
    "libs/core/include/fcppt/math/clamp.hpp", "libs/core/include/fcppt/math/diff.hpp",
    "libs/core/include/fcppt/container/at_optional.hpp", "libs/core/include/fcppt/container/maybe_front.hpp",
    "libs/core/include/fcppt/container/maybe_back.hpp", "libs/core/include/fcppt/container/pop_back.hpp",
    "libs/core/include/fcppt/container/find_opt.hpp", "libs/core/include/fcppt/container/grid/at_optional.hpp",
    "libs/core/include/fcppt/enum/from_int.hpp", "libs/core/include/fcppt/enum/from_string.hpp",
    "libs/core/include/fcppt/cast/truncation_check.hpp", "libs/core/include/fcppt/cast/dynamic.hpp",
    "libs/core/include/fcppt/array/from_range.hpp", "libs/core/include/fcppt/extract_from_string_locale.hpp",
    "libs/core/include/fcppt/io/stream_to_string.hpp", "libs/core/include/fcppt/runtime_index.hpp",
    "libs/core/src/io/read_chars.cpp", "libs/core/impl/include/fcppt/impl/codecvt.hpp",
    "libs/filesystem/src/filesystem/file_size.cpp", "libs/filesystem/src/filesystem/remove_extension.cpp",
    "libs/options/impl/src/options/impl/is_flag.cpp", "libs/options/impl/src/options/impl/next_arg.cpp",
    "libs/options/include/fcppt/options/parse.hpp", "libs/parse/include/fcppt/parse/phrase_parse_string.hpp",
]

# std entry points that throw on bad input / environment (EXC-2). Matched on the resolved callee.
THROWING_STD_METHODS = {"at", "value", "substr"}
THROWING_STD_FUNCS = {"std::stoi", "std::stol", "std::stoul", "std::stoll", "std::stoull", "std::stof",
                      "std::stod", "std::stold", "std::get", "std::any_cast", "std::use_facet"}
# use_facet of a standard facet on a std::locale never throws (the standard facets are always
# installed); it is listed so that every use is printed as JUSTIFIED rather than silently ignored.

DETAIL_MARKERS = ("::detail::", "::impl::")


def in_detail(fn):
    return any(m in fn["qn"] for m in DETAIL_MARKERS)


def key_of(site):
    top = F.top_function(site["fn"])
    return "%s|%s|%s" % (F.fn_name(top), site["op"], site["object"])


def rule_G(rep, db, only):
    rep.rule("G", "every partial operation in a total function is dominated by the fact it requires "
                  "(same object path, no intervening write), or justified by a named entry", floor=60)
    rep.rule("G-contract", "census: partial operations inside functions that are partial by contract "
                           "(name *_unsafe, iterator protocol, std-mirroring container members); "
                           "their requirement belongs to the caller", floor=5)
    entries = G.load_justified()
    sites = G.scan(db, db.functions)
    # one-level propagation: an undischarged site in a detail/impl function whose object is a
    # parameter becomes a requirement on the corresponding argument of every caller
    summaries = {}
    for s in sites:
        if s["ok"]:
            continue
        top = F.top_function(s["fn"])
        if not in_detail(top) or s["fn"] is not top:
            continue
        for i, p in enumerate(top.get("params", [])):
            if s["object"] == p["name"] and s["op"].startswith("integer"):
                summaries.setdefault(top["mangled"], []).append((i, "nonzero", s))
                s["propagated"] = True
    prop_sites = []
    if summaries:
        def on_site(cx, n, facts, cur):
            if n.get("k") != "call":
                return
            d = T.callee_decl(cx.unit, n)
            if d is None or d["mangled"] not in summaries:
                return
            for (i, kind, orig) in summaries[d["mangled"]]:
                args = n.get("args", [])
                if i >= len(args):
                    continue
                R = T.norm(cx.unit, args[i])
                ok = G.nonzero(cx, facts, R, T.unwrap(cx.unit, args[i]))
                prop_sites.append({"fn": cx.fn, "op": "call of %s (requires argument %d != 0)" % (F.strip_targs(d["qn"]), i),
                                   "object": T.show(R), "ok": ok, "required": "argument != 0",
                                   "site": cx.unit.loc(n.get("loc")),
                                   "facts": [("" if pol else "!") + T.show(t) for (t, pol) in (facts if facts != G.EXIT else ())][:12]})
        callers = [fn for fn in db.functions]
        for fn in callers:
            G.walk_fn(db, fn, on_site)
    agg = collections.OrderedDict()
    for s in sites + prop_sites:
        top = F.top_function(s["fn"])
        pc = G.partial_by_contract(s["fn"])
        k = key_of(s)
        a = agg.setdefault(k, {"ok": 0, "bad": [], "pc": pc, "site": s["site"], "first": s, "propagated": False})
        if s.get("propagated"):
            a["propagated"] = True
        if s["ok"]:
            a["ok"] += 1
        else:
            a["bad"].append(s)
    for k, a in agg.items():
        s = a["first"]
        fname = F.fn_name(F.top_function(s["fn"]))
        if a["pc"]:
            rep.ok("G-contract", k, a["site"], fname, how="contract:" + a["pc"].split(" ")[0])
            continue
        if not a["bad"]:
            rep.ok("G", k, a["site"], fname, how="P1-dominating-fact", detail={"specialisations": a["ok"], "facts": s["facts"][:4]})
            continue
        if a["propagated"]:
            rep.ok("G", k, a["site"], fname, how="propagated-to-callers")
            continue
        b = a["bad"][0]
        j = G.justified(entries, fname, b["op"], b["object"])
        if j is not None:
            rep.ok("G", k, b["site"], fname, how="P3-justified")
            rep.justify("G", k, j["reason"])
            continue
        rep.fail("G", k, b["site"], F.describe(b["fn"]),
                 why="partial operation %s on `%s` requires %s; no dominating fact found (%d of %d specialisations)" %
                     (b["op"], b["object"], b["required"], len(a["bad"]), len(a["bad"]) + a["ok"]),
                 detail={"dominating_conditions": b["facts"], "required": b["required"]})
    for e in entries:
        if not e.get("_used"):
            rep.note("stale justification (matches no site): %s | %s | %s" % (e["function"], e["op"], e.get("object")))
    return sites


def rule_EXC(rep, db):
    rep.rule("EXC-1", "every throw expression lies in a function that documents it (\\throw in its doc "
                      "comment), is an exception-conversion helper (to_exception), a validating constructor "
                      "of an options parser, or the parse stream whose exception phrase_parse converts", floor=5)
    rep.rule("EXC-2", "no call to a throwing std entry point (filesystem overload without error_code, "
                      ".at(), .value(), stoi-family, std::get<T>(variant)) from library code outside a "
                      "matching handler", floor=1)
    rep.rule("EXC-3", "phrase_parse catches exactly the exception type thrown by the parse stream", floor=1)
    seen = set()
    stream_exc = set()
    for fn in db.functions:
        u = fn["_unit"]
        top = fn
        for n in F.walk([fn.get("body")] + [i.get("init") for i in fn.get("inits", [])]):
            k = n.get("k")
            if k == "throw":
                loc = u.loc(n["loc"])
                if loc in seen:
                    continue
                seen.add(loc)
                name = F.fn_name(fn)
                ty = u.ty(n.get("thrown")) or "rethrow"
                doc = (fn.get("doc") or "")
                key = "%s|throw %s" % (name, ty)
                reason = None
                if "\\throw" in doc or "@throw" in doc:
                    reason = "documented"
                elif name.endswith("::to_exception"):
                    reason = "conversion-helper"
                elif name.startswith("fcppt::parse::detail::") and "fcppt::parse::detail::exception" in ty:
                    reason = "parse-stream-exception(converted by phrase_parse)"
                    stream_exc.add(ty.replace("const ", ""))
                elif name.startswith("fcppt::options::") and ("fcppt::options::duplicate_names" in ty or "fcppt::options::exception" in ty):
                    # documented in doc/options: constructing a parser with clashing names or equal
                    # active/inactive values throws fcppt::options::exception / duplicate_names
                    reason = "options-definition-validation"
                elif n.get("rethrow"):
                    reason = "rethrow"
                if reason:
                    rep.ok("EXC-1", key, loc, name, how=reason)
                else:
                    rep.fail("EXC-1", key, loc, name, why="throw of %s in a function that does not document it" % ty)
            if k == "call":
                d = T.callee_decl(u, n)
                if d is None:
                    continue
                qn = F.strip_targs(d["qn"])
                loc = u.loc(n["loc"])
                if loc in seen:
                    continue
                if qn.startswith("std::filesystem::") and not qn.startswith("std::filesystem::path::") and not qn.startswith("std::filesystem::operator") and \
                        not qn.startswith("std::filesystem::directory") and not qn.startswith("std::filesystem::recursive") and not qn.startswith("std::filesystem::file_status"):
                    seen.add(loc)
                    key = "%s|%s" % (F.fn_name(fn), qn)
                    ptypes = [u.ty(t) for t in d.get("ptypes", [])]
                    if any("std::error_code" in (t or "") for t in ptypes) or d.get("noexcept"):
                        rep.ok("EXC-2", key, loc, F.fn_name(fn), how="error_code-overload")
                    else:
                        rep.fail("EXC-2", key, loc, F.fn_name(fn),
                                 why="%s called through its throwing overload (no std::error_code parameter): "
                                     "throws std::filesystem::filesystem_error instead of reporting failure" % qn)
                elif qn in THROWING_STD_FUNCS or (qn.startswith("std::") and qn.split("::")[-1] in THROWING_STD_METHODS and n.get("recv") is not None):
                    if qn == "std::get":
                        # std::get<I>(tuple/array/pair) does not throw; only the variant form does
                        a0 = T.unwrap(u, (n.get("args") or [None])[0])
                        at = u.ty(a0.get("t")) if a0 else ""
                        if "std::variant" not in (at or ""):
                            continue
                    seen.add(loc)
                    key = "%s|%s" % (F.fn_name(fn), qn)
                    if qn == "std::use_facet":
                        rep.ok("EXC-2", key, loc, F.fn_name(fn), how="standard-facet-always-present")
                    else:
                        rep.fail("EXC-2", key, loc, F.fn_name(fn), why="call of throwing std entry point %s" % qn)
    # EXC-3
    for fn in db.fns("fcppt::parse::phrase_parse"):
        body = fn.get("body")
        u = fn["_unit"]
        handlers = []
        for n in F.walk(body, into_lambdas=False):
            if n.get("k") == "try":
                handlers += [(u.ty(h.get("t")) or "...") for h in n.get("handlers", [])]
        key = "fcppt::parse::phrase_parse|handler"
        ch = fn.get("targs", ["?"])[0]
        want = "fcppt::parse::detail::exception<%s>" % ch
        if any(want in h or h == "..." for h in handlers):
            rep.ok("EXC-3", key, F.site(fn), F.describe(fn), how="handler-matches")
        else:
            rep.fail("EXC-3", key, F.site(fn), F.describe(fn),
                     why="no handler for %s (handlers: %s): a failing stream escapes as an exception" % (want, handlers))


FLOAT_LOOPS = {"fcppt::math::matrix::sqrt", "fcppt::math::matrix::logarithm", "fcppt::math::matrix::exponential_pade"}


def always_progress(unit, s, vars_):
    """structural: does every path through statement s write one of vars_ (decl ids)?"""
    if s is None:
        return False
    k = s.get("k")
    if k in ("compound", "attributed"):
        return any(always_progress(unit, c, vars_) for c in s.get("ch", []))
    if k == "if":
        return always_progress(unit, s.get("then"), vars_) and s.get("else") is not None and always_progress(unit, s.get("else"), vars_)
    if k == "switch":
        body = s.get("body")
        groups = []
        cur = None
        for c in (body.get("ch", []) if body else []):
            if c.get("k") in ("case", "default"):
                cur = [c.get("sub")]
                groups.append(cur)
                # nested case labels
                while cur[0] is not None and cur[0].get("k") in ("case", "default"):
                    cur[0] = cur[0].get("sub")
            elif cur is not None:
                cur.append(c)
        return bool(groups) and all(any(always_progress(unit, x, vars_) for x in g if x is not None) for g in groups)
    if k in ("decl",):
        return any(v.get("init") is not None and (roots_written(unit, v["init"]) & vars_) for v in s.get("ch", []))
    if k in ("for", "while", "do", "range_for", "try", "return", "break", "continue", "null"):
        return False
    # expression statement: writes not nested under a conditional operator
    return bool(roots_written(unit, s, unconditional=True) & vars_)


def roots_written(unit, node, unconditional=False):
    out = set()

    def rec(n, cond):
        if n is None:
            return
        if isinstance(n, list):
            for x in n:
                rec(x, cond)
            return
        if not isinstance(n, dict):
            return
        k = n.get("k")
        if not (unconditional and cond):
            for p in G.writes_of_node(unit, n):
                out.update(T.roots(p))
        if k == "cond":
            rec(n["c_"], cond)
            rec(n["then"], True)
            rec(n["else"], True)
            return
        if k == "binop" and n.get("op") in ("&&", "||"):
            rec(n["l"], cond)
            rec(n["r"], True)
            return
        if k == "lambda":
            return
        for c in F.children(n):
            rec(c, cond)
    rec(node, False)
    return out


def rule_LOOP(rep, db):
    rep.rule("LOOP", "every for/while/do loop writes a variable of its condition on every path from the "
                     "head back to the head (no stutter path); callback-driven and floating-point convergence "
                     "loops are listed, not decided", floor=12)
    seen = set()
    nrange = 0
    for fn in db.functions:
        u = fn["_unit"]
        for sub in [f for f in u.all_functions if F.top_function(f) is fn]:
            for n in F.walk(sub.get("body"), into_lambdas=False):
                k = n.get("k")
                if k == "range_for":
                    nrange += 1
                if k not in ("for", "while", "do"):
                    continue
                loc = u.loc(n["loc"])
                if loc in seen:
                    continue
                seen.add(loc)
                name = F.fn_name(fn)
                key = "%s|%s-loop" % (name, k)
                cond = n.get("cond")
                cvars = set()
                for m in F.walk(cond):
                    if m.get("k") == "ref" and m.get("dk") in ("local", "param"):
                        cvars.add(m["id"])
                    if m.get("k") == "this":
                        cvars.add(-1)
                if name in FLOAT_LOOPS:
                    rep.ok("LOOP", key, loc, name, how="not-decided:floating-point-convergence")
                    continue
                if cond is None:
                    j = LOOP_JUST.get(name)
                    if j:
                        rep.ok("LOOP", key, loc, name, how="P3-justified")
                        rep.justify("LOOP", key, j)
                    else:
                        rep.fail("LOOP", key, loc, name, why="loop without condition")
                    continue
                # progress in the condition itself (counter /= 2 inside the condition)
                if roots_written(u, cond) & cvars:
                    rep.ok("LOOP", key, loc, name, how="progress-in-condition")
                    continue
                inc = n.get("inc")
                if inc is not None and (roots_written(u, inc, unconditional=True) & cvars):
                    # `continue` statements still pass through the increment
                    rep.ok("LOOP", key, loc, name, how="progress-in-increment")
                    continue
                if always_progress(u, n.get("body"), cvars):
                    rep.ok("LOOP", key, loc, name, how="progress-on-every-body-path")
                    continue
                j = LOOP_JUST.get(name)
                if j:
                    rep.ok("LOOP", key, loc, name, how="P3-justified")
                    rep.justify("LOOP", key, j)
                    continue
                rep.fail("LOOP", key, loc, name,
                         why="no write to a variable of the loop condition on every path back to the loop head",
                         detail={"condition_variables": sorted(cvars)})
    rep.extra["range_for_loops_seen"] = nrange


LOOP_JUST = {
    "fcppt::either::loop": "callback-driven loop: terminates when the caller's `next` returns a failure (class c, DESIGN.md C01.4)",
    "fcppt::impl::codecvt": "for(;;) exits by return on ok/noconv/error; the `partial` arm grows the output buffer or advances `from` (class b by buffer growth)",
    "fcppt::algorithm::map_iteration": "`++next` before the body and `it = next` in the increment (erase-safe iteration)",
    "fcppt::container::index_map::get": "impl_.push_back grows impl_.size() towards needed_size on every iteration",
    "fcppt::options::impl::next_arg": "progress (`++cur` / `cur = next`) happens inside the maybe-continuations invoked on every iteration",
}


def main(rep, tier, only):
    db = load.load(tier)
    rep.extra.update(db.stats())
    rep.extra["load_s"] = db.load_s
    have = set()
    for fn in db.functions:
        have.add(fn["_unit"].file_of(fn["primary"]))
    missing = [a for a in ANCHORS if a not in have]
    rep.extra["anchor_files_with_analysed_functions"] = len(ANCHORS) - len(missing)
    if missing:
        rep.broken("anchor files without any analysed function (file vanished or no instantiation): " + ", ".join(missing))
    if only in (None, "G"):
        rule_G(rep, db, only)
    if only in (None, "EXC", "EXC-1", "EXC-2", "EXC-3"):
        rule_EXC(rep, db)
    if only in (None, "LOOP"):
        rule_LOOP(rep, db)
    rep.explanation = (
        "Site rules over the type-resolved AST of %d function instantiations from %d units (library "
        "units, /verif drivers%s). G: structured dominance of the required fact over each partial "
        "operation; EXC: resolved-callee effect rules; LOOP: progress census. Decides the structural "
        "necessary conditions of totality, not numeric results." %
        (len(db.functions), len(db.units), ", and the repository's test/example units" if tier == "thorough" else ""))
    rep.trusted = ["clang 14 front end (AST, overload resolution, constant folding)",
                   "libstdc++ contracts of std containers/iterators as encoded in the partial-operation table",
                   "justification table rules/justified_sites.json (each entry printed on every run)"]
    rep.assumptions = ["signed overflow, lifetime and aliasing UB are not decided",
                       "floating-point convergence loops are listed, not decided",
                       "facts about an object are only invalidated by writes visible through the same access path (no alias analysis through references)"]
