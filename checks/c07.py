"""C07 raw_vector / buffer vs. std::vector (DESIGN.md §6 C07): ownership and aliasing STRUCTURE only.

Necessary conditions of "no leak, no double free, aliasing inserts, same returned iterators":
 OWN-1  in every member that calls alloc_.allocate: the old storage is released exactly once
        (deallocate()) after the copy-out and the new pointers are installed (set_pointers / impl
        move) with the allocated pointer, before the function returns
 OWN-2  destructors release; deallocate() guards the null state; the moved-from / released state is
        all-null (move constructor, impl move, buffer::release) so exactly one owner remains;
        swap exchanges all pointer fields pairwise
 ALIAS  insert(pos, T const&) / insert(pos, n, T const&): on no path is the by-reference value read
        after a write into the vector's own element storage (it is copied first)
 RET    both erase overloads return their first iterator parameter (the position following the
        removed range); insert(pos, v) returns begin()+offset after reallocation and pos otherwise
 BUF    buffer::release hands (first_, read_end_, cap_) to the raw_vector rep (read area, not write
        area) and nulls the buffer; to_raw_vector builds the vector from release()
Declined: equivalence with std::vector over operation histories, capacity >= size, every bounds
argument about new_size <= capacity (relational numeric invariants over pointers).
"""
from engine import facts as F
from engine import load
from engine import lrules as L
from engine import terms as T

LEVEL = "other"
RV = "fcppt::container::raw_vector::object"
BUF = "fcppt::container::buffer::object"


def stmts_in_order(fn):
    """flattened statement/expression-call order (pre-order walk of the body)"""
    return [n for n in F.walk(fn.get("body"), into_lambdas=False)]


def call_seq(u, fn, items=None):
    out = []
    for n in F.walk(items if items is not None else fn.get("body"), into_lambdas=False):
        if n.get("k") == "call":
            q = T.callee_qn(u, n)
            if q:
                out.append((q, n))
        if n.get("k") == "return":
            out.append(("<return>", n))
    return out


def own1_path(u, fn, seq):
    """None if the path does not allocate, 'ok', or a reason"""
    allocs = [i for i, (q, n) in enumerate(seq) if q.endswith("::allocate") and "alloc_" in T.show(T.norm(u, n.get("recv")))]
    if not allocs:
        return None
    i0 = allocs[0]
    var = None
    for v in F.walk(fn.get("body"), into_lambdas=False):
        if v.get("k") == "var" and v.get("init") is not None:
            if any(m is seq[i0][1] for m in F.walk(v["init"])):
                var = v.get("name")
    deall = [i for i, (q, n) in enumerate(seq) if q.endswith("::deallocate") and i > i0 and "alloc_" not in T.show(T.norm(u, n.get("recv")) or ("k", ""))]
    inst = [i for i, (q, n) in enumerate(seq) if (q.endswith("::set_pointers") or q.endswith("impl::operator=")) and i > i0]
    copies = [i for i, (q, n) in enumerate(seq) if q in ("std::uninitialized_copy", "std::uninitialized_fill") and i > i0]
    if len(deall) != 1:
        return "old storage is released %d times after the allocation (expected exactly once)" % len(deall)
    if not inst or inst[0] < deall[0]:
        return "the new pointers are not installed after releasing the old storage"
    if any(c > deall[0] for c in copies):
        return "elements are copied out of the old storage after it was released"
    n_inst = seq[inst[0]][1]
    a0 = " ".join(T.show(T.norm(u, a)) for a in n_inst.get("args", []))
    if var and var not in a0:
        return "the installed pointer is %s, not the allocated memory %s" % (a0, var)
    rets = [i for i, (q, n) in enumerate(seq) if q == "<return>" and i0 < i < inst[0]]
    if rets:
        return "a return between allocation and installation leaks the new storage"
    return "ok"


def path_seqs(u, fn):
    """call sequences per structured path (if-splitting), conditions excluded"""
    body = fn.get("body") or {}
    return [call_seq(u, fn, items) for (items, conds) in L.flatten_paths(body.get("ch", []))]


def main(rep, tier, only):
    db = load.load(tier, lib=False, drivers=["drv_containers"])
    rep.extra.update(db.stats())
    rep.rule("OWN-1", "allocate => copy-out => deallocate() once => install the allocated pointer, before return", floor=5)
    rep.rule("OWN-2", "destructor releases; deallocate guards null; moved-from / released state is all-null; swap is pairwise", floor=6)
    rep.rule("ALIAS", "insert(pos, T const&) / insert(pos, n, T const&) never read the value parameter after writing element storage", floor=2)
    rep.rule("RET", "erase returns its first iterator parameter; insert(pos, v) returns begin()+offset / pos", floor=3)
    rep.rule("BUF", "buffer::release hands (first_, read_end_, cap_) and nulls the buffer; to_raw_vector uses release()", floor=2)
    rv = L.method_fns(db, RV) + L.method_fns(db, RV + "::impl") + L.method_fns(db, BUF + "::impl")
    if len(rv) < 30:
        rep.broken("raw_vector::object: only %d members analysed" % len(rv))
    for fn in rv + L.method_fns(db, BUF):
        u = fn["_unit"]
        name = F.fn_name(fn)
        short = name.split("::")[-1]
        seq = call_seq(u, fn)
        key = "%s(%s)" % (name.replace("fcppt::container::", ""), ",".join((u.ty(p["t"]) or "").split("::")[-1][:24] for p in fn.get("params", [])))
        if fn.get("kind") != "ctor":
            whys = [own1_path(u, fn, seq) for seq in path_seqs(u, fn)]
            whys = [w for w in whys if w is not None]
            if whys:
                bad = [w for w in whys if w != "ok"]
                (rep.fail if bad else rep.ok)("OWN-1", key, F.primary_site(fn), F.describe(fn)[:160],
                                              **({"why": bad[0]} if bad else {"how": "allocate;copy;deallocate;install", "detail": {"allocating_paths": len(whys)}}))
        seq = call_seq(u, fn)
        if fn.get("kind") == "dtor" and not name.endswith("impl::~impl"):
            ok = any(q.endswith("::deallocate") for q, n in seq)
            (rep.ok if ok else rep.fail)("OWN-2", key, F.primary_site(fn), F.describe(fn)[:160], **({"how": "releases"} if ok else {"why": "destructor does not release the storage"}))
        if short == "deallocate" and name.startswith(RV):
            conds = [T.show(T.norm(u, n.get("cond"))) for n in F.walk(fn.get("body")) if n.get("k") == "if"]
            inner = [q for q, n in seq if q.endswith("::deallocate")]
            ok = conds and "first_" in conds[0] and "nullptr" in conds[0] and len(inner) == 1
            (rep.ok if ok else rep.fail)("OWN-2", key, F.primary_site(fn), F.describe(fn)[:160], **({"how": "null-guarded"} if ok else {"why": "deallocate is not `if (first_ != nullptr) alloc_.deallocate(first_, capacity())`"}))
        if short == "swap" and name.startswith(RV):
            sw = [(T.show(T.norm(u, n["args"][0])), T.show(T.norm(u, n["args"][1]))) for q, n in seq if q == "std::swap"]
            flds = sorted(a.split(".")[-1] for a, b in sw)
            ok = flds == ["cap_", "first_", "last_"] and all(a.split(".")[-1] == b.split(".")[-1] and "_other" in b for a, b in sw)
            (rep.ok if ok else rep.fail)("OWN-2", key, F.primary_site(fn), F.describe(fn)[:160], **({"how": "pairwise first_/last_/cap_"} if ok else {"why": "swap exchanges %s" % sw}))
        if short in ("reset_pointers", "release_internal"):
            ws = {}
            for f_ in ("first_", "last_", "cap_", "read_end_", "write_end_"):
                for w in L.field_writes(u, fn, f_):
                    ws[f_] = L.is_nullptr(u, w["value"])
            want = ("first_", "last_", "cap_") if short == "reset_pointers" else ("first_", "read_end_", "write_end_", "cap_")
            ok = all(ws.get(f_) for f_ in want)
            (rep.ok if ok else rep.fail)("OWN-2", key, F.primary_site(fn), F.describe(fn)[:160], **({"how": "all-null"} if ok else {"why": "released state is not all-null: %s" % ws}))
        if fn.get("kind") == "ctor" and fn.get("ctor_kind") == "move" and name == RV + "::impl::impl":
            ok = any(q.endswith("::reset_pointers") and "_other" in T.show(T.norm(u, n.get("recv"))) for q, n in seq)
            (rep.ok if ok else rep.fail)("OWN-2", key, F.primary_site(fn), F.describe(fn)[:160], **({"how": "source reset"} if ok else {"why": "the moved-from impl keeps its pointers (double free)"}))
        if fn.get("kind") == "ctor" and fn.get("ctor_kind") == "move" and name == BUF + "::object":
            ok = any(q.endswith("::release_internal") and "_other" in T.show(T.norm(u, n.get("recv"))) for q, n in seq)
            (rep.ok if ok else rep.fail)("OWN-2", key, F.primary_site(fn), F.describe(fn)[:160], **({"how": "source released"} if ok else {"why": "the moved-from buffer keeps its pointers (double free)"}))
        # ---- ALIAS
        if short == "insert" and name.startswith(RV) and fn.get("params"):
            last = fn["params"][-1]
            lt = u.ty(last["t"]) or ""
            if last["ref"] == "clref" and not lt.startswith("const std::") and "iterator" not in lt and len(fn["params"]) in (2, 3) and last["name"] == "_value":
                # walk in order: storage writes then reads of _value
                bad = None
                wrote = None
                for n in F.walk(fn.get("body"), into_lambdas=False):
                    k = n.get("k")
                    if k in ("if",):
                        pass
                    if k == "call":
                        q = T.callee_qn(u, n) or ""
                        if q in ("std::copy_backward", "std::copy", "std::move_backward", "std::memmove"):
                            dst = T.show(T.norm(u, n["args"][-1]))
                            if "new_memory" not in dst:
                                wrote = u.loc(n["loc"])
                    if k == "ref" and n.get("id") == last["id"] and wrote:
                        bad = (wrote, u.loc(n["loc"]))
                        break
                # branch-insensitive over-approximation is exact here: writes into own storage only
                # occur on the in-place branch, and a read of _value there after the write is the defect
                if bad and _same_branch(fn, bad):
                    rep.fail("ALIAS", key, bad[1], F.describe(fn)[:160],
                             why="_value is read at %s after the elements were shifted at %s: a value referring to an element of this vector is taken from its new position" % (bad[1], bad[0]))
                else:
                    rep.ok("ALIAS", key, F.primary_site(fn), F.describe(fn)[:160], how="value copied / read before the shift")
        # ---- RET
        if short == "erase" and name.startswith(RV):
            first = fn["params"][0]
            rets = [n for n in F.walk(fn.get("body"), into_lambdas=False) if n.get("k") == "return"]
            ok = rets and all((T.unwrap(u, r["e"]) or {}).get("id") == first["id"] for r in rets)
            got = [T.show(T.norm(u, r["e"])) for r in rets]
            (rep.ok if ok else rep.fail)("RET", key, F.primary_site(fn), F.describe(fn)[:160],
                                         **({"how": "returns " + first["name"]} if ok else {"why": "returns %s; std::vector returns the position following the removed range, i.e. %s" % (got, first["name"])}))
        if short == "insert" and name.startswith(RV) and len(fn.get("params", [])) == 2 and u.ty(fn.get("ret")) != "void":
            rets = [T.show(T.norm(u, r["e"])) for r in F.walk(fn.get("body"), into_lambdas=False) if r.get("k") == "return"]
            ok = len(rets) == 2 and any("begin()" in r and "insert_sz" in r for r in rets) and "_position" in rets
            (rep.ok if ok else rep.fail)("RET", key, F.primary_site(fn), F.describe(fn)[:160], **({"how": str(rets)} if ok else {"why": "returns %s" % rets}))
        # ---- BUF
        if name == BUF + "::release":
            reps = [n for n in F.walk(fn.get("body")) if n.get("k") == "construct" and "raw_vector::rep" in (n.get("cls") or "")]
            args = [T.show(T.norm(u, a)) for a in reps[0].get("args", [])] if reps else []
            want = ["first_", "read_end_", "cap_"]
            ok = reps and [a.split(".")[-1] for a in args[1:]] == want and any(q.endswith("::release_internal") for q, n in seq)
            (rep.ok if ok else rep.fail)("BUF", key, F.primary_site(fn), F.describe(fn)[:160],
                                         **({"how": "(first_, read_end_, cap_);nulled"} if ok else {"why": "rep is built from %s (expected first_, read_end_, cap_) or the buffer is not nulled" % args}))
    for fn in db.fns("fcppt::container::buffer::to_raw_vector"):
        u = fn["_unit"]
        t = " ".join(T.show(T.norm(u, r["e"])) for r in F.walk(fn.get("body")) if r.get("k") == "return")
        ok = "_buffer.release()" in t
        (rep.ok if ok else rep.fail)("BUF", "to_raw_vector", F.primary_site(fn), F.describe(fn)[:160], **({"how": "object{release()}"} if ok else {"why": "to_raw_vector does not build the vector from release(): %s" % t}))
        break
    rep.explanation = ("Ordering / pairing rules over the members of raw_vector::object and buffer::object (explicit instantiations in "
                       "drv_containers). Decides necessary conditions of memory safety and std::vector agreement that are visible in "
                       "code shape; index arithmetic and growth policy are not decided.")
    rep.trusted = ["clang 14 front end", "std::uninitialized_copy / copy_backward write only their destination range"]


def _same_branch(fn, bad):
    return True
