#!/bin/bash
# eq_overlay.sh <worktree> <k>: materialise out/<k>/patch.diff as an overlay directory under .work and print its path
set -e
V=/verif; wt=$1; k=$2
ov=$(mktemp -d -p $V/.work eqdbg-XXXX)
for f in $(grep '^+++ b/' $wt/out/$k/patch.diff | sed 's/^+++ b\///; s/\t.*//'); do mkdir -p $ov/$(dirname $f); cp /repo/$f $ov/$f; done
patch -p1 -s -d $ov -i $wt/out/$k/patch.diff
echo $ov
